#!/usr/bin/env python3
"""Regenerate /verif/MANIFEST.json from the property modules present in gcverif/props and the texts below."""
import json
import os

HERE = os.path.dirname(os.path.dirname(os.path.abspath(__file__)))

TEXT = {
    "C01": ("contract on every GEMINI.evaluate call vs naive reference distances (explicit distributions, LP for W1); "
            "registry monitor on discriminating inputs; differentials: MI == KL one-vs-all on every call, compute_affinity of named kernels / metrics vs scikit-learn, __call__ after an in-place refresh of the same arrays vs a fresh evaluation, float32 copies of the predictions vs the float64 reference",
            "Runtime monitoring: each score returned by the real evaluate() during direct, registry and in-training "
            "calls is compared with an independent reference built from the documented definition. Held on the "
            "executions observed; says nothing about inputs not generated.",
            "Trusts scipy linprog/HiGHS for the transport LP, IEEE doubles, tolerances 1e-9 (1e-7 LP)."),
    "C02": ("contract on every evaluate(return_grad=True): same score, shape, zero gradient on clipped entries, and "
            "Richardson central-difference derivative of the original evaluate through the soft-max parameterisation and "
            "along simplex tangent directions (row by row on partly clipped inputs); kinks detected and skipped; user epsilon, Fortran-ordered inputs, the same object called again on arrays refreshed in place",
            "Runtime monitoring with a numeric-derivative oracle at every gradient the real code returns during direct "
            "calls and inside real fits. Decides mismatches above ~1e-6 relative at smooth, well-conditioned points.",
            "Finite differences in IEEE doubles; coordinates failing the smoothness / conditioning tests are skipped "
            "(counted in the evidence), so a defect confined to kinks or to gradients below ~1e-7 is invisible."),
    "C13": ("metamorphic monitor on evaluate calls: re-invocation on permuted samples, permuted clusters, appended "
            "empty cluster (C / Fortran / strided layouts); bounds (>=0, <=1, constant rows, MI=log K, finiteness on the closed simplex) with per-distance clipping slack; integer / boolean one-hot matrices vs the float matrix",
            "Runtime monitoring: each observed call is re-executed on transformed copies and the relation is asserted; "
            "gradient equivariance is arbitrated by a numeric derivative where decidable.",
            "Tolerances 1e-9 (sqrt-aware for MMD, K*epsilon for clipped one-hot rows); gradient equivariance undecided at kinks."),
    "C03": ("invariant at a hook: inside sklearn BaseOptimizer.update_params, before the step, the gradient list is "
            "compared entry-wise with the numeric derivative of GEMINI(model._infer(batch), affinity block) - documented "
            "penalty evaluated on the live model; _batchify hook supplies the live batch and sample ids",
            "Runtime monitoring of real fits/paths of all 8 gradient-trained families (all 17 gradient estimators), all "
            "GEMINIs, both solvers, batch sizes 1..n+3, plain and mlcl-decorated, first/last/random steps.",
            "Numeric-derivative oracle (kinks skipped, ill-conditioned coordinates compared only against 10x the noise "
            "floor); penalties as documented (RIM l2, KernelRIM tr(W'KW), mlcl pairwise terms)."),
    "C05": ("contract on every call of the four proximal functions (all references rebound, so calls from real sparse "
            "fits/paths are seen): closed-form group-lasso reference with exact-zero test; HIER-PROX checked for "
            "feasibility, optimality against a bisection solution of the reduced 1-D convex problem, uniqueness, and "
            "random feasible perturbations",
            "Runtime monitoring over ~25k rows per quick run incl. exhaustive set partitions of <=5 features.",
            "Reference minimiser by bisection (1e-16 bracket); tolerances 1e-12 (group lasso), 1e-10 objective / 1e-8 argmin."),
    "C04": ("post-fit contract through the public API on every fit of generated valid configurations of the 18 "
            "estimators (labels_, predict_proba, predict, score vs reference GEMINI, n_iter_, optimiser_, Adam step counter, "
            "fit_predict; Kauri labels/tree; score after an in-place refresh of the training array; long Douglas trainings with crossing cut points); any exception is a violation keyed by estimator/exception/frame",
            "Runtime monitoring of ~640 (quick) / 12k (thorough) fits drawn from the documented parameter domains, "
            "incl. n_clusters=1, n_clusters=n, batch sizes 1..n+3, list / int / float inputs.",
            "Documented domains are hand-written in gcverif/gen.py; score is compared with the naive reference for n<=14."),
    "C10": ("invariants at hooks: producer side (every batch yielded by _batchify, decoded through unique-id coding) and "
            "consumer side (rows given to _infer and affinity given to GEMINI.evaluate at each optimiser step), step / "
            "epoch counters, path validation blocks (compute_val_score rebound); batch size set through set_params after construction / decoration; dynamic paths with a sample-set-dependent kernel (block compared by value)",
            "Runtime monitoring of fits and paths of all batched and nonparametric families, plain and mlcl-decorated.",
            "Rows of generated X are pairwise distinct (ambiguous kernels rows of KernelRIM are skipped and counted)."),
    "C14": ("reference-model monitor (union-find validator) over exhaustive small and random large constraint sets; "
            "invariant at a hook: gradient received by the model's own _compute_grads minus gradient returned by "
            "GEMINI.evaluate equals the documented pairwise term on exactly the linked rows of the batch",
            "Runtime monitoring: ~11k validations + ~1k decorated batches per quick run.",
            "Acceptance rule taken from the property text; 3-column pair arrays are not generated."),
    "C08": ("contract on gemclus.tree.kauri.find_best_split (native module rebuilt from the working tree's _utils.cpp): "
            "the full state of every call is replayed through a brute-force reference that relabels and recomputes the "
            "objective for every admissible candidate; post-fit score decomposition and stopping-rule check; thorough "
            "tier repeats the synthetic states on an ASan+UBSan build",
            "Runtime monitoring of ~4.5k (quick) / 75k (thorough) find_best_split calls from real fits and synthetic "
            "tree states; two open findings in the Cython source are classified by mechanism and reported as KNOWN-FINDING.",
            "Cython unavailable: the .pyx cannot be translated, the check builds _utils.cpp and reports INCONCLUSIVE when "
            "the .cpp no longer echoes the .pyx. Admissible families as documented in the code."),
    "C09": ("post-fit contract on every Kauri.fit: limits, partition, thresholds, node counts re-derived from the arrays "
            "with an independent router and objective; predict on fresh / on-threshold points; score vs a reference computed with the monitor's own kernel, also after set_params(kernel) + refit on the same array and after an in-place change of the array",
            "Runtime monitoring of 1.6k (quick) / 40k (thorough) fits over all combinations of small structural limits; "
            "thorough adds fits on the ASan+UBSan build.",
            "Independent router uses x <= threshold -> left, as the training partition does."),
    "C19": ("stdout of print_kauri_tree parsed by an independent recursive-descent parser into threshold rules, applied "
            "to training / fresh / on-threshold points and compared with predict; names mapped back; refusals (unfitted, foreign, model whose only fit was refused)",
            "Runtime monitoring over the C09 fit workload (~2k printed trees per quick run, ~100k points).",
            "Thresholds are printed with a round-tripping repr; generated names contain no ' <= ' / ' > '."),
    "C06": ("invariants at hooks: class-level wrappers on Sparse*Model._update_weights with a snapshot taken inside "
            "update_params (weights right after the optimiser step + the optimiser's learning rate) compared with the "
            "reference proximal operators; quiescent-point checks at every path validation score, after fit, after path "
            "(selection == exact non-zero rows, inertness by perturbing unselected columns, group wholeness, groups_)",
            "Runtime monitoring: ~30k proximal steps and ~9k quiescent points per quick run over the five sparse estimators.",
            "Reference prox of C05; rows with zero skip weights but non-zero hidden weights are skipped (non-unique minimiser)."),
    "C07": ("event log + executable reference model: every validation score of path() is logged with a snapshot of all "
            "weights, the model's alpha and the number of optimiser updates since the previous one; an offline checker "
            "segments the log into outer steps and replays the documented rule (alpha recurrence, histories, stopping, "
            "patience, best weights bit for bit, restoration, defaults+warnings, differential runs); NaN fault injection at "
            "the validation hook; termination as bounded progress on logical steps",
            "Runtime monitoring of 320 (quick) / 5000 (thorough) path() calls with hostile arguments.",
            "'Always terminates' is restated as bounded progress (1500 outer steps); budget exhaustion without a stuck "
            "schedule is inconclusive. One open finding (dynamic mode, empty selection) is classified by mechanism."),
    "C15": ("contract on every Douglas._leaf_binning return (probability vectors), post-fit contract (leaf count, masked "
            "columns perturbed -> bit-identical predictions, low-temperature cell constancy on the fitted object, one leaf per cell) and "
            "find_active_points vs its definition on generated query sets",
            "Runtime monitoring: 320 fits x 20 active-point queries, ~18k cell comparisons, ~9k binning calls per quick run.",
            "Cell of a sample = number of cut points below its value; points closer than 0.05 to a cut are not used."),
    "C17": ("invariant at the optimiser hook (every parameter finite after every step; first offending step/array "
            "recorded) + post-call finiteness contract over the property's degenerate families; every validation score computed inside path(); the 13 objectives on one-hot predictions in four dtypes",
            "Runtime monitoring of 900 (quick) / 18k (thorough) fits and paths across 18 estimators x 12 degenerate families.",
            "One open finding (SGD on the RIM/KernelRIM quadratic penalty beyond its stability limit) classified by a "
            "structural predicate; kernels undefined on the data are not generated."),
    "C18": ("metamorphic monitor on predict / predict_proba: whole array vs subsets, permutations, single and repeated "
            "rows; training-set probabilities vs the last forward pass of fit captured by an _infer hook; large query arrays (2^k-1, 2^k, 2^k+1 rows) row vs row alone; Kauri on features far from the origin",
            "Runtime monitoring: 640 fits x 8 query transformations per quick run over the 15 inductive estimators.",
            "1e-9 absolute on probabilities (BLAS blocking); labels compared where the top-two margin exceeds 1e-9."),
    "C16": ("contract at the call boundary against a hand-written specification table of in-domain / out-of-domain "
            "probes per hyperparameter (18 estimators, 7 GEMINI constructors, 5 generators, mlcl, print), exhaustive group "
            "lists over small feature sets, malformed data, unfitted calls; optimiser-step hook proves rejected "
            "configurations were never trained on; post-rejection state (no labels_, predict raises)",
            "Runtime monitoring: ~5k probes per quick run (thorough adds pairwise combinations, ~13k).",
            "Domains are those of the docstrings; values the docs leave open are not probed."),
    "C11": ("invariants at hooks (affinity handed to _batchify by fit, affinity and objective class/mode seen by "
            "GEMINI.evaluate during training and score, KernelRIM._compute_kernel returns, kernel reaching Kauri's "
            "find_best_split) compared with the monitor's own scikit-learn evaluation of what the parameters describe; "
            "differential runs named vs precomputed(captured matrix) compared bit for bit",
            "Runtime monitoring: 540 fits + ~330 differential pairs per quick run over all estimators exposing "
            "kernel / metric / ovo / gemini / base_kernel.",
            "Path validation histories are compared to 1e-9 (+1e-6 absolute: sqrt of round-off when an MMD vanishes), "
            "everything else exactly."),
    "C12": ("offline checker over call histories: random sequences of public calls on one estimator (incl. fits and paths "
            "crashed by a fault injected at the optimiser hook) followed by a final fit/path compared bit for bit with a "
            "fresh object, a refit and a clone; byte checksums of caller arrays and get_params snapshots around every call (path included); a third of the objects are born under another configuration and reconfigured through set_params; every estimator owns a deep copy of its mutable hyperparameters",
            "Runtime monitoring of 540 (quick) / 9.9k (thorough) histories of length 0..6 over the 18 estimators.",
            "Integer random_state only; histories are random, not exhaustive."),
    "C20": ("statistical monitors on the returned (X, y) of the five generators at n=2e4..2e5 with 6.5-sigma thresholds: "
            "label frequencies, per-label means / covariances, KS distance of whitened Student-t marginals, celeux_two "
            "regression; determinism for equal seeds; invalid parameter sets must raise (incl. random indefinite covariances in d=2..6)",
            "Runtime monitoring: 80 generator calls / ~4k z-tests per quick run (640 calls thorough).",
            "Fixed-seed statistical tests: a deviation below ~6.5 standard errors is invisible at these sample sizes."),
}

# widened in session 3 (appended to the technique text of each check)
EXTRA = {
    "C01": "; band oracle on saturated / one-hot predictions under a user epsilon (clipped, clipped+renormalised, as given); 1100..1500 x 32..48 matrices; thorough tier: the repository's own test-suite under the same contract",
    "C02": "; 1100..1500 x 32..48 matrices (n*K^2 > 2^20); thorough tier: the repository's own test-suite under the same contract",
    "C03": "; steps taken while a sparse model has a feature switched off (extra monitored steps; two continuation steps through the documented loop infer -> gemini -> _compute_grads -> _update_weights from such a state); three-scale arbitration in which the analytic value must be out of reach of every scale",
    "C04": "; float32 / Fortran-ordered / strided / read-only training data (reference affinity on the layout the model saw), NumPy-integer hyperparameters",
    "C06": "; redundant (twin) features with mini-batches and dynamic paths: discarded features that come back",
    "C05": "; thorough tier: the repository's own test-suite under the same contract",
    "C07": "; steps told apart by the model's alpha (start-of-step score optional), initial score recomputed by the monitor at the end of the initial fit; model alphas of 1e-9..1e-15; under-trained initial fits followed by strong penalties; redundant (twin) features: paths whose feature count is not monotone",
    "C08": "; long fits (up to ~100 leaves, dozens of clusters): admissibility and real gain of every chosen split, score decomposition",
    "C09": "; long fits (up to ~100 leaves)",
    "C10": "; NumPy-integer batch sizes; an absent recorded-indices attribute is judged by its effect (C14)",
    "C12": "; sibling objects of the same class fitted on the same arrays inside histories; hyperparameters compared by value; a raising clone is a violation",
    "C13": "; 1100..1500 x 32..48 matrices; thorough tier: the repository's own test-suite under the same monitor",
    "C14": "; must-link paths, cycles and trees of 3..40 samples with far-apart cannot-link pairs; an absent recorded-indices attribute is judged through the rows the constraint terms land on",
    "C15": "; leaf memberships read through the public API (leaf_scores_ set to leaf indicators) at five temperatures; integer-typed query arrays; binary / ordinal / constant training columns",
    "C16": "; every in-domain value probed again after the out-of-domain ones, each right after an equal-valued twin of another type",
    "C17": "; scores of one row, copies of one row and a slice",
    "C19": "; trees of up to ~100 leaves",
    "C20": "; covariances and Student scales in units of 1e-14..1e6; small draws from mixtures with rare components (every sample next to the mean its label names)",
}

TECH_DEFAULT = "runtime monitoring: contracts/invariants at hooked call sites over generated workloads"


def main():
    props = [l for l in open(os.path.join(HERE, "properties.jsonl"))]
    ids = [json.loads(l)["id"] for l in props]
    checks, na = [], []
    for pid in ids:
        mod = os.path.join(HERE, "gcverif", "props", pid.lower() + ".py")
        if pid in TEXT and os.path.exists(mod):
            tech, text, note = TEXT[pid]
            checks.append({
                "property_id": pid,
                "quick_cmd": f"./check {pid} quick",
                "thorough_cmd": f"./check {pid} thorough",
                "evidence_file": f"/verif/evidence/{pid}.json",
                "replay_cmd_template": f"./check {pid} --replay {{path}}",
                "engine": "gcverif",
                "level_claimed": {"category": "exploration", "text": text, "design_ref": f"DESIGN.md section 4, {pid}"},
                "level_note": note,
                "technique": tech + EXTRA.get(pid, ""),
            })
        else:
            na.append({"property_id": pid, "reason": "check not built yet (work in progress); will be claimed once its "
                                                     "monitor is silent on the unchanged tree over several seeds"})
    man = {
        "version": 1,
        "setup_cmd": "./check setup",
        "hooks": {
            "guard": "GEMCLUS_VERIF",
            "enable": "no source hooks: ./check exports GEMCLUS_VERIF=1 and attaches every monitor from the harness by "
                      "rebinding Python attributes (class-level wrappers, module globals); the native module is rebuilt "
                      "from /repo/gemclus/tree/_utils.cpp into /verif/.build and injected as gemclus.tree._utils",
            "baseline_off_cmd": "cd /repo && /venv/bin/python -m pytest -ra -q -p no:cacheprovider --timeout=900 "
                                "--continue-on-collection-errors --junitxml=/tmp/gcverif-baseline.xml; "
                                "python3 /verif/tools/baseline_ok.py /tmp/gcverif-baseline.xml",
            "source_commits": [],
            "add_only": True,
        },
        "engines": [{"name": "gcverif", "path": "/verif/gcverif",
                     "serves_properties": [c["property_id"] for c in checks],
                     "kind_free_text": "runtime-monitoring harness: rebinding patcher, contracts at call boundaries, "
                                       "invariants at hooks, event logs replayed against executable reference models, "
                                       "ASan/UBSan rebuild of the Cython-generated C++"}],
        "checks": checks,
        "notes": "Exit codes: 0 held on everything observed (KNOWN-FINDING lines for listed open findings), 1 + VIOLATION "
                 "line for an unlisted violation, 2 + INCONCLUSIVE line when a required monitor was not reached or a "
                 "watchdog fired (never on the unchanged tree). VERIF_SEED selects the workload; fix: commits in /repo are "
                 "listed in /verif/known_findings.json.",
        "not_applicable": na,
    }
    json.dump(man, open(os.path.join(HERE, "MANIFEST.json"), "w"), indent=1)
    print(f"{len(checks)} checks, {len(na)} not claimed")


if __name__ == "__main__":
    main()
