#!/usr/bin/env python3
"""Re-run all 20 quick checks against every seeded change kept under /verif/seeded and refresh 'caught_by' / 'checks'
in its meta.json (demonstration and baseline results are kept from tools/seed_verify.py).
usage: seed_recheck.py [--all] [name-substring ...]   (default: only the property's own check and the checks that fired before)"""
import glob, json, os, subprocess, sys
from concurrent.futures import ThreadPoolExecutor
VERIF = os.path.dirname(os.path.dirname(os.path.abspath(__file__)))

def one(d):
    name = os.path.basename(d)
    wt = f"/tmp/sv/rc-{name}"
    subprocess.run(f"git -C /repo worktree remove --force {wt}", shell=True, capture_output=True)
    subprocess.run(f"git -C /repo worktree add -q --detach {wt} HEAD", shell=True, check=True)
    subprocess.run(f"cp /repo/gemclus/tree/_utils.cpp /repo/gemclus/tree/_utils.cpython-312-x86_64-linux-gnu.so {wt}/gemclus/tree/", shell=True)
    r = subprocess.run(f"git -C {wt} apply {d}/patch.diff", shell=True, capture_output=True, text=True)
    assert r.returncode == 0, r.stderr
    m = json.load(open(f"{d}/meta.json"))
    checks = dict(m.get("checks", {})) if QUICK else {}
    todo = sorted(set([m["property"]] + list(m.get("caught_by", [])))) if QUICK else [f"C{i:02d}" for i in range(1, 21)]
    for pid in todo:
        e = dict(os.environ, GCVERIF_REPO=wt, GCVERIF_EVIDENCE_DIR=f"/tmp/gcverif-mut-evidence/{name}", GCVERIF_REPLAY_DIR=f"/tmp/gcverif-mut-replays/{name}")
        p = subprocess.run([os.path.join(VERIF, "check"), pid, "quick"], capture_output=True, text=True, env=e)
        mech = [l.strip().split(" monitor=")[0].replace("mechanism=", "") for l in p.stdout.split("\n") if l.strip().startswith("mechanism=")]
        checks[pid] = {"rc": p.returncode, "mechanisms": mech[:6]}
    m["checks"] = checks
    m["caught_by"] = [k for k, v in checks.items() if v["rc"] == 1]
    m["inconclusive"] = [k for k, v in checks.items() if v["rc"] not in (0, 1)]
    json.dump(m, open(f"{d}/meta.json", "w"), indent=1)
    subprocess.run(f"git -C /repo worktree remove --force {wt}", shell=True, capture_output=True)
    return name, m["property"], m["caught_by"], m["inconclusive"]

QUICK = "--all" not in sys.argv

if __name__ == "__main__":
    sel = [a for a in sys.argv[1:] if not a.startswith("--")]
    dirs = [d for d in sorted(glob.glob(os.path.join(VERIF, "seeded", "*"))) if not sel or any(s in d for s in sel)]
    with ThreadPoolExecutor(3) as ex:
        for name, prop, caught, inc in ex.map(one, dirs):
            print(name, prop, "caught_by", caught, ("OWN-CHECK-MISSES" if prop not in caught else ""), ("inconclusive " + str(inc)) if inc else "", flush=True)
