#!/bin/bash
# run every check on /repo (tier = $1, default quick) and print one line each; exit 1 if any check is not exit 0
cd "$(dirname "$0")/.."
tier=${1:-quick}
rc=0
for i in $(seq -w 1 20); do
  p=C$i
  out=$(./check $p $tier 2>&1); c=$?
  echo "$p rc=$c $(echo "$out" | grep '^\[' | head -1)"
  if [ $c -ne 0 ]; then rc=1; echo "$out" | grep -v '^KNOWN' | head -5 | cut -c1-300; fi
done
exit $rc
