#!/usr/bin/env python3
"""Markdown table of the behaviour-preserving changes under /verif/benign (from their meta.json / notes.md); with --update
it replaces the text between the BENIGNTABLE markers of DESIGN.md."""
import glob, json, os, re, sys
here = os.path.dirname(os.path.dirname(os.path.abspath(__file__)))
rows = []
PREFIX = "bn2-" if "--pass2" in sys.argv else "bn1-"
for d in sorted(glob.glob(os.path.join(here, "benign", PREFIX + "*"))):
    m = json.load(open(os.path.join(d, "meta.json")))
    notes = ""
    if os.path.exists(os.path.join(d, "notes.md")):
        lines = [x.strip() for x in open(os.path.join(d, "notes.md")).read().split("\n") if x.strip()]
        notes = lines[0].lstrip("# ").replace("|", "/")[:260] if lines else ""
    cs = m.get("checks", {})
    alarms = [k for k, v in sorted(cs.items()) if v["rc"] == 1]
    inc = [k for k, v in sorted(cs.items()) if v["rc"] not in (0, 1)]
    silent = sum(1 for v in cs.values() if v["rc"] == 0)
    merged = "; ".join(f"{k}: {v.split(' (')[0]}" for k, v in m.get("later_commits", {}).items() if v != "applied")
    rows.append((os.path.basename(d), m["property"], (m.get("diffstat") or [""])[0].strip(), str(m.get("demo_on_changed_rc")),
                 f"{silent}/{len(cs)}", ", ".join(alarms) or "-", ", ".join(inc) or "-", notes + (f" [{merged}]" if merged else "")))
out = ["| change | written for | size | its own equivalence demo | checks silent | VIOLATION | INCONCLUSIVE | what was refactored |",
       "|---|---|---|---|---|---|---|---|"]
out += ["| " + " | ".join(r) + " |" for r in rows]
tab = "\n".join(out) + "\n"
if "--update" in sys.argv:
    p = os.path.join(here, "DESIGN.md")
    s = open(p).read()
    tag = "BENIGN2TABLE" if PREFIX == "bn2-" else "BENIGNTABLE"
    ph = "BENIGN2_TABLE" if PREFIX == "bn2-" else "BENIGN_TABLE"
    if ph in s:
        s = s.replace(ph, "<!-- %s:BEGIN -->\n" % tag + tab + "<!-- %s:END -->" % tag)
    else:
        s = re.sub(r"<!-- %s:BEGIN -->.*?<!-- %s:END -->" % (tag, tag), lambda m_: "<!-- %s:BEGIN -->\n" % tag + tab + "<!-- %s:END -->" % tag, s, flags=re.S)
    open(p, "w").write(s)
    print("rows:", len(rows))
else:
    print(tab)
