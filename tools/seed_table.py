#!/usr/bin/env python3
"""Print a markdown table of the seeded changes kept under /verif/seeded (from their meta.json)."""
import glob, json, os
rows = []
for d in sorted(glob.glob(os.path.join(os.path.dirname(os.path.dirname(os.path.abspath(__file__))), "seeded", "*"))):
    m = json.load(open(os.path.join(d, "meta.json")))
    notes = m.get("needs_to_manifest", "").replace("\n", " ").replace("|", "/")
    own = m["checks"].get(m["property"], {})
    rows.append((os.path.basename(d), m["property"], ", ".join(m.get("caught_by", [])) or "MISSED",
                 "; ".join(own.get("mechanisms", [])[:2]), m.get("summary") or notes[:220]))
print("| seed | property | caught by (quick tier) | mechanism reported by the property's own check | what it is / needs to manifest |")
print("|---|---|---|---|---|")
for r in rows:
    print("| " + " | ".join(r) + " |")
