#!/usr/bin/env python3
"""Validate MANIFEST.json and every evidence/*.json against the schemas (run with python3-vt)."""
import glob, json, sys
import jsonschema
ok = True
try:
    jsonschema.validate(json.load(open('/verif/MANIFEST.json')), json.load(open('/root/.vp/MANIFEST.schema.json')))
    print("MANIFEST ok")
except Exception as e:
    ok = False; print("MANIFEST:", str(e)[:300])
sch = json.load(open('/root/.vp/EVIDENCE.schema.json'))
for f in sorted(glob.glob('/verif/evidence/*.json')):
    try:
        ev = json.load(open(f)); jsonschema.validate(ev, sch)
        print(f, "ok", ev['tier'], ev['coverage']['evaluations'], ev['coverage']['distinct_nontrivial'], ev['coverage'].get('verdict'))
    except Exception as e:
        ok = False; print(f, "INVALID", str(e)[:300])
sys.exit(0 if ok else 1)
