#!/usr/bin/env python3
"""Compare a junit xml produced by the BASELINE command with BASELINE.json's stable_pass list.
usage: baseline_ok.py <junit.xml>   exit 0 iff every stable_pass test passed."""
import json, sys, xml.etree.ElementTree as ET
base = json.load(open('/root/.vp/BASELINE.json'))
want = set(base['stable_pass'])
passed = set()
for tc in ET.parse(sys.argv[1]).getroot().iter('testcase'):
    bad = any(ch.tag in ('failure', 'error', 'skipped') for ch in tc)
    name = f"{tc.get('classname')}::{tc.get('name')}"
    if not bad:
        passed.add(name)
missing = sorted(want - passed)
print(f"baseline stable_pass={len(want)} passed_now={len(passed)} missing={len(missing)}")
for m in missing[:20]:
    print("  MISSING", m)
sys.exit(1 if missing else 0)
