#!/usr/bin/env python3
"""Run the checks against a behaviour-PRESERVING change (a refactoring written by an independent sub-agent that was
told to keep the property true) and record what they say.  Any VIOLATION here is either a false alarm of my machinery
(to be corrected in the machinery) or a property the refactoring broke after all (to be shown with a witness).

usage: benign_verify.py <name> <property> <dir-with-patch.diff-demo.py-notes.md> [--base <commit>] [--checks C01,..|all]

The patch was written against commit --base (default: the commit the agents' worktrees were created from); it is applied
there, then every later commit of /repo (fix: commits made meanwhile) is applied on top, so that the tree tested is
"/repo HEAD + the refactoring".  Results go to /verif/benign/<name>/ (patch.diff, notes.md, meta.json)."""
import json
import os
import shutil
import subprocess
import sys

VERIF = os.path.dirname(os.path.dirname(os.path.abspath(__file__)))


KAURI_KERNEL_FIXES = {"366c281", "8a1e56b"}
KAURI_KERNEL_SHIM = '''


# merge of the fixes 366c281 / 8a1e56b of /repo (kernel handed to the compiled code as a writable float64 array) into a tree
# whose refactoring rewrote Kauri._compute_kernel - appended by /verif/tools/benign_verify.py, not part of the refactoring
def _merged_kernel_fix(method):
    def _compute_kernel(self, X, y=None):
        return np.require(method(self, X, y), dtype=np.float64, requirements="W")
    return _compute_kernel


Kauri._compute_kernel = _merged_kernel_fix(Kauri._compute_kernel)
'''


def sh(cmd, **kw):
    return subprocess.run(cmd, shell=True, capture_output=True, text=True, **kw)


def main():
    name, prop, src = sys.argv[1], sys.argv[2], sys.argv[3]
    base = sys.argv[sys.argv.index("--base") + 1] if "--base" in sys.argv else "80af1e9"
    checks = [f"C{i:02d}" for i in range(1, 21)]
    if "--checks" in sys.argv:
        v = sys.argv[sys.argv.index("--checks") + 1]
        checks = checks if v == "all" else v.split(",")
    wt = f"/tmp/bnv/{name}"
    sh(f"git -C /repo worktree remove --force {wt}")
    shutil.rmtree(wt, ignore_errors=True)
    os.makedirs("/tmp/bnv", exist_ok=True)
    r = sh(f"git -C /repo worktree add -q --detach {wt} {base}")
    assert r.returncode == 0, r.stderr
    res = {"name": name, "property": prop, "base": base}
    ap = sh(f"git -C {wt} apply {os.path.abspath(os.path.join(src, 'patch.diff'))}")
    res["patch_applies"] = ap.returncode == 0
    if ap.returncode != 0:
        res["apply_error"] = ap.stderr[-400:]
    # a local commit "base + refactoring": --3way below has something to merge against and a failed merge can be undone
    sh(f"git -C {wt} add -A && git -C {wt} -c user.email=verif@local -c user.name=verif commit -q -m refactoring")
    # later commits of /repo on top (three-way, so that a refactoring of neighbouring lines does not block them)
    later = sh(f"git -C /repo rev-list --reverse {base}..HEAD").stdout.split()
    res["later_commits"] = {}
    for c in later:
        d = f"/tmp/bnv/{name}-{c[:7]}.diff"
        open(d, "w").write(sh(f"git -C /repo diff {c}~1 {c}").stdout)
        a = sh(f"git -C {wt} apply {d}")
        if a.returncode != 0:
            a = sh(f"git -C {wt} apply --3way {d}")
        res["later_commits"][c[:7]] = "applied" if a.returncode == 0 else "CONFLICT: " + a.stderr[-200:]
        os.remove(d)
        if a.returncode == 0:
            sh(f"git -C {wt} add -A && git -C {wt} -c user.email=verif@local -c user.name=verif commit -q -m fix-{c[:7]}")
        if a.returncode != 0:
            # the refactoring rewrote the very lines the fix touches: put the refactored files back (no conflict markers)
            # and merge the fix by hand where I know how to
            sh(f"git -C {wt} reset -q --hard HEAD")
            if c[:7] in KAURI_KERNEL_FIXES:
                kp = os.path.join(wt, "gemclus/tree/kauri.py")
                src_k = open(kp).read()
                if "_merged_kernel_fix" not in src_k:
                    open(kp, "a").write(KAURI_KERNEL_SHIM)
                    sh(f"git -C {wt} add -A && git -C {wt} -c user.email=verif@local -c user.name=verif commit -q -m shim")
                res["later_commits"][c[:7]] = "merged by hand (shim around Kauri._compute_kernel)"
    sh(f"cp /repo/gemclus/tree/_utils.cpp /repo/gemclus/tree/_utils.cpython-312-x86_64-linux-gnu.so {wt}/gemclus/tree/")
    demo = f"/tmp/bnv/{name}_demo.py"
    if os.path.exists(os.path.join(src, "demo.py")):
        shutil.copy(os.path.join(src, "demo.py"), demo)
        env = dict(os.environ, PYTHONPATH=wt, OMP_NUM_THREADS="1", OPENBLAS_NUM_THREADS="1")
        try:
            d1 = subprocess.run(["/venv/bin/python", demo], cwd=wt, env=env, capture_output=True, text=True, timeout=900)
            res["demo_on_changed_rc"] = d1.returncode
        except subprocess.TimeoutExpired:
            res["demo_on_changed_rc"] = "timeout"
    res["diffstat"] = sh(f"git -C {wt} diff --stat {base}").stdout.strip().split("\n")[-1:]
    out = {}
    for pid in checks:
        e = dict(os.environ, GCVERIF_REPO=wt, GCVERIF_EVIDENCE_DIR=f"/tmp/gcverif-bn-evidence/{name}",
                 GCVERIF_REPLAY_DIR=f"/tmp/gcverif-bn-replays/{name}")
        r = subprocess.run([os.path.join(VERIF, "check"), pid, "quick"], capture_output=True, text=True, env=e)
        mech = [l.strip()[:600] for l in r.stdout.split("\n") if l.strip().startswith("mechanism=")]
        out[pid] = {"rc": r.returncode, "mechanisms": mech[:6]}
        if r.returncode == 2:
            out[pid]["inconclusive"] = [l[:400] for l in r.stdout.split("\n") if l.startswith("INCONCLUSIVE")][:3]
        if r.returncode not in (0, 1, 2):
            out[pid]["tail"] = (r.stdout + r.stderr)[-600:]
    dst0 = os.path.join(VERIF, "benign", name, "meta.json")
    if "--checks" in sys.argv and os.path.exists(dst0):
        # a partial re-run: keep the results of the other checks
        prev = json.load(open(dst0)).get("checks", {})
        prev.update(out)
        out = prev
    res["checks"] = out
    res["alarms"] = [k for k, v in out.items() if v["rc"] == 1]
    res["inconclusive"] = [k for k, v in out.items() if v["rc"] == 2]
    dst = os.path.join(VERIF, "benign", name)
    os.makedirs(dst, exist_ok=True)
    shutil.copy(os.path.join(src, "patch.diff"), os.path.join(dst, "patch.diff"))
    for extra_file in ("notes.md", "demo.py"):
        if os.path.exists(os.path.join(src, extra_file)):
            shutil.copy(os.path.join(src, extra_file), os.path.join(dst, extra_file))
    json.dump(res, open(os.path.join(dst, "meta.json"), "w"), indent=1)
    sh(f"git -C /repo worktree remove --force {wt}")
    shutil.rmtree(wt, ignore_errors=True)
    print(json.dumps({k: v for k, v in res.items() if k != "checks"}, indent=1))
    for k in res["alarms"] + res["inconclusive"]:
        print(k, json.dumps(out[k])[:1500])
    return 0


if __name__ == "__main__":
    sys.exit(main())
