#!/usr/bin/env python3
"""Verify a seeded change produced by a sub-agent and record it under /verif/seeded/<name>/.

usage: seed_verify.py <name> <property> <dir-with-patch.diff-and-demo.py> [--no-tests] [--checks C01,C02,...|all]

Steps (all in a fresh scratch worktree of /repo's HEAD under /tmp/sv/<name>, removed at the end):
  1. demo.py on the unchanged tree must exit 0
  2. git apply patch.diff; demo.py must now exit non-zero
  3. the repository's baseline tests (BASELINE.json stable_pass) must still pass with the change
  4. run my checks (quick tier) against the changed tree: which ones report a VIOLATION
"""
import json
import os
import shutil
import subprocess
import sys
import time

VERIF = os.path.dirname(os.path.dirname(os.path.abspath(__file__)))


def sh(cmd, **kw):
    return subprocess.run(cmd, shell=True, capture_output=True, text=True, **kw)


def main():
    name, prop, src = sys.argv[1], sys.argv[2], sys.argv[3]
    no_tests = "--no-tests" in sys.argv
    checks = [prop]
    if "--checks" in sys.argv:
        v = sys.argv[sys.argv.index("--checks") + 1]
        checks = [f"C{i:02d}" for i in range(1, 21)] if v == "all" else v.split(",")
    wt = f"/tmp/sv/{name}"
    sh(f"git -C /repo worktree remove --force {wt}")
    shutil.rmtree(wt, ignore_errors=True)
    os.makedirs("/tmp/sv", exist_ok=True)
    r = sh(f"git -C /repo worktree add -q --detach {wt} HEAD")
    assert r.returncode == 0, r.stderr
    sh(f"cp /repo/gemclus/tree/_utils.cpp /repo/gemclus/tree/_utils.cpython-312-x86_64-linux-gnu.so {wt}/gemclus/tree/")
    # the demo lives outside the worktree: the repository's pytest configuration collects every *.py file
    demo = f"/tmp/sv/{name}_demo.py"
    shutil.copy(os.path.join(src, "demo.py"), demo)
    env = dict(os.environ, PYTHONPATH=wt, OMP_NUM_THREADS="1", OPENBLAS_NUM_THREADS="1")
    res = {"name": name, "property": prop}
    d0 = subprocess.run(["/venv/bin/python", demo], cwd=wt, env=env, capture_output=True, text=True, timeout=900)
    res["demo_on_original_rc"] = d0.returncode
    ap = sh(f"git -C {wt} apply {os.path.abspath(os.path.join(src, 'patch.diff'))}")
    res["patch_applies"] = ap.returncode == 0
    if ap.returncode != 0:
        res["apply_error"] = ap.stderr[-500:]
    d1 = subprocess.run(["/venv/bin/python", demo], cwd=wt, env=env, capture_output=True, text=True, timeout=900)
    res["demo_on_changed_rc"] = d1.returncode
    res["demo_changed_tail"] = (d1.stdout + d1.stderr)[-600:]
    res["files_changed"] = sh(f"git -C {wt} diff --stat").stdout.strip().split("\n")[-1:]
    if not no_tests:
        t0 = time.time()
        xml = f"/tmp/sv/{name}.xml"
        subprocess.run(f"cd {wt} && OMP_NUM_THREADS=2 OPENBLAS_NUM_THREADS=2 PYTHONPATH={wt} /venv/bin/python -m pytest -ra -q -p no:cacheprovider --timeout=900 "
                       f"--continue-on-collection-errors --junitxml={xml} > /tmp/sv/{name}.testlog 2>&1", shell=True)
        b = sh(f"python3 {VERIF}/tools/baseline_ok.py {xml}")
        res["baseline"] = b.stdout.strip().split("\n")[0]
        res["baseline_ok"] = b.returncode == 0
        res["tests_wall_s"] = round(time.time() - t0)
    caught = {}
    for pid in checks:
        e = dict(os.environ, GCVERIF_REPO=wt, GCVERIF_EVIDENCE_DIR="/tmp/gcverif-mut-evidence", GCVERIF_REPLAY_DIR="/tmp/gcverif-mut-replays")
        r = subprocess.run([os.path.join(VERIF, "check"), pid, "quick"], capture_output=True, text=True, env=e)
        mech = [l.strip().split(" monitor=")[0].replace("mechanism=", "") for l in r.stdout.split("\n") if l.strip().startswith("mechanism=")]
        caught[pid] = {"rc": r.returncode, "mechanisms": mech[:6]}
        if r.returncode == 2:
            caught[pid]["inconclusive"] = [l for l in r.stdout.split("\n") if l.startswith("INCONCLUSIVE")][:2]
    res["checks"] = caught
    res["caught_by"] = [k for k, v in caught.items() if v["rc"] == 1]
    sh(f"git -C /repo worktree remove --force {wt}")
    shutil.rmtree(wt, ignore_errors=True)
    print(json.dumps(res, indent=1))
    valid = res["demo_on_original_rc"] == 0 and res["patch_applies"] and res["demo_on_changed_rc"] != 0 and (no_tests or res.get("baseline_ok"))
    res["valid_seed"] = bool(valid)
    out = os.path.join(VERIF, "seeded", name)
    if valid:
        os.makedirs(out, exist_ok=True)
        shutil.copy(os.path.join(src, "patch.diff"), os.path.join(out, "patch.diff"))
        shutil.copy(os.path.join(src, "demo.py"), os.path.join(out, "demo.py"))
        notes = open(os.path.join(src, "notes.md")).read() if os.path.exists(os.path.join(src, "notes.md")) else ""
        meta = {"property": prop, "needs_to_manifest": notes[:3000], "verified": {
            "demo_on_unchanged_tree_rc": res["demo_on_original_rc"], "demo_on_changed_tree_rc": res["demo_on_changed_rc"],
            "baseline": res.get("baseline"), "what_i_ran": "tools/seed_verify.py: fresh worktree of /repo HEAD, demo before/after git apply, "
            "BASELINE command + tools/baseline_ok.py with the change, then ./check <ID> quick with GCVERIF_REPO pointing at the changed tree"},
            "caught_by": res["caught_by"], "checks": caught}
        json.dump(meta, open(os.path.join(out, "meta.json"), "w"), indent=1)
    print("VALID" if valid else "NOT-VALID", "caught_by=", res["caught_by"])
    return 0


if __name__ == "__main__":
    sys.exit(main())
