#!/usr/bin/env python3
"""My own deliberate property-breaking edits (DESIGN.md section 5, step 2).

usage: mutants.py [name-substring ...]    applies each mutant to a scratch worktree of /repo (never /repo itself),
runs the quick check of the properties expected to catch it with GCVERIF_REPO pointing there, and reverts.
Prints one line per (mutant, property): CAUGHT / MISSED / INCONCLUSIVE.
"""
import os
import subprocess
import sys

WT = os.environ.get("MUT_WT", "/tmp/wt-mut")
VERIF = os.path.dirname(os.path.dirname(os.path.abspath(__file__)))

# (name, file, old, new, [properties expected to catch it])
MUTANTS = [
    ("tv-drop-half", "gemclus/gemini/_fdivergences.py", "tv_gemini = 0.5 * np.sum(pseudo_estimates)",
     "tv_gemini = np.sum(pseudo_estimates)", ["C01"]),
    ("kl-ovo-swapped", "gemclus/gemini/_fdivergences.py",
     "        if self.ovo:\n            mutual_information = prediction_entropy - np.sum(p_y * np.mean(log_p_y_x, axis=0))",
     "        if not self.ovo:\n            mutual_information = prediction_entropy - np.sum(p_y * np.mean(log_p_y_x, axis=0))",
     ["C01"]),
    ("registry-tv-ovo-wired-to-ova", "gemclus/gemini/_utils.py", "return TVGEMINI(ovo=True)", "return TVGEMINI()", ["C01"]),
    ("mmd-ova-pi-uniform", "gemclus/gemini/_geomdistances.py", "mmd_ova_value = np.dot(pi, delta).squeeze()",
     "mmd_ova_value = np.mean(delta).squeeze()", ["C01"]),
    ("hellinger-grad-factor", "gemclus/gemini/_fdivergences.py",
     "gradients = -0.5 * (p_y / cluster_wise_estimates + np.mean(p_y_x / cluster_wise_estimates, axis=0))",
     "gradients = -0.5 * (p_y / cluster_wise_estimates + 0.9 * np.mean(p_y_x / cluster_wise_estimates, axis=0))", ["C02"]),
    ("mmd-ovo-grad-drop-term", "gemclus/gemini/_geomdistances.py", "                gradient += pi @ delta / N\n", "", ["C02"]),
    ("wass-ova-grad-drop-term", "gemclus/gemini/_geomdistances.py",
     "                grads -= (y_pred * u_bar).sum(0) / (N * N * pi)\n", "", ["C02"]),
    ("chi2-no-clip-mask", "gemclus/gemini/_fdivergences.py",
     "return 0.5*chi2_gemini, 0.5*gradients * clip_mask", "return 0.5*chi2_gemini, 0.5*gradients", ["C02"]),
    ("tv-ovo-grad-sign", "gemclus/gemini/_fdivergences.py",
     "gradients = np.squeeze(extended_p_y_x_grad) + np.squeeze(extended_p_y_grad).mean(0)",
     "gradients = np.squeeze(extended_p_y_x_grad) - np.squeeze(extended_p_y_grad).mean(0)", ["C02"]),
    ("kl-py-unclipped", "gemclus/gemini/_fdivergences.py",
     "        p_y = p_y_x.mean(0)\n\n        log_p_y_x = np.log(p_y_x)", "        p_y = y_pred.mean(0)\n\n        log_p_y_x = np.log(p_y_x)", ["C13"]),
    ("mmd-ova-no-maximum", "gemclus/gemini/_geomdistances.py",
     "delta = np.sqrt(np.maximum(a + c - 2 * b, 0))", "delta = np.sqrt(a + c - 2 * b)", ["C13"]),
    ("hellinger-ovo-sample-order", "gemclus/gemini/_fdivergences.py",
     "        if self.ovo:\n            estimates = np.square(estimates)\n",
     "        if self.ovo:\n            estimates = np.square(estimates)\n            estimates[0] *= 1 + 1e-6\n", ["C13", "C01"]),
    ("chi2-hardcoded-K", "gemclus/gemini/_fdivergences.py",
     "            chi2_gemini = np.sum(p_y_x*cluster_wise_estimates, axis=1).mean()",
     "            chi2_gemini = np.sum((p_y_x*cluster_wise_estimates)[:, :3], axis=1).mean()", ["C13", "C01"]),
    ("prox-ascending-sort", "gemclus/sparse/_prox_grad.py", "u_abs_sorted = np.sort(np.abs(u), axis=1)[:, ::-1]",
     "u_abs_sorted = np.sort(np.abs(u), axis=1)", ["C05"]),
    ("prox-idx-ge", "gemclus/sparse/_prox_grad.py", "idx = np.sum(lower > w, axis=1, keepdims=True)",
     "idx = np.sum(lower >= w, axis=1, keepdims=True)", ["C05"]),
    ("prox-missing-denominator", "gemclus/sparse/_prox_grad.py", "x = np.maximum(1 - a_s / norm_v, 0) / (1 + s * M ** 2)",
     "x = np.maximum(1 - a_s / norm_v, 0) / (1 + s * M)", ["C05"]),
    ("grouplasso-rowwise-in-groups", "gemclus/sparse/_prox_grad.py",
     "        group_W_star = linear_prox_grad(group_W.reshape((1, -1)), alpha)",
     "        group_W_star = linear_prox_grad(group_W, alpha)", ["C05"]),
    ("grouplasso-strict", "gemclus/sparse/_prox_grad.py",
     "W_star = np.maximum(W_norms - alpha, 0) * W / np.where(W_norms == 0, 1, W_norms)",
     "W_star = np.where(W_norms - alpha > 1e-9, W_norms - alpha, 1e-12) * W / np.where(W_norms == 0, 1, W_norms)", ["C05"]),
    ("linear-skip-softmax-backprop", "gemclus/linear/_linear_geminis.py", "        W_grad = X.T @ tau_hat_grad\n",
     "        W_grad = X.T @ (y_pred * gradient)\n", ["C03"]),
    ("rim-penalty-factor", "gemclus/linear/_linear_geminis.py", "gradients[0] += self.reg * 2 * self.W_",
     "gradients[0] += self.reg * self.W_", ["C03"]),
    ("categorical-other-rows", "gemclus/nonparametric/_categorical_models.py", "return [-tau_hat_grad]",
     "return [-tau_hat_grad[::-1]] if len(X) > 6 else [-tau_hat_grad]", ["C03"]),
    ("douglas-wrong-inverse-order", "gemclus/tree/douglas.py", "cut_grad = cumsum_grad[np.argsort(self._all_orders[i])]",
     "cut_grad = cumsum_grad[self._all_orders[i]]", ["C03"]),
    ("mlp-b1-mean", "gemclus/mlp/_mlp_geminis.py", "b1_grad = backprop_grad.sum(0, keepdims=True)",
     "b1_grad = backprop_grad.mean(0, keepdims=True)", ["C03"]),
    ("mlcl-mustlink-sign", "gemclus/mlcl.py",
     "                    gradient[idx0] -= factor * (y_pred[idx0] - y_pred[idx1])\n                    gradient[idx1] -= factor * (y_pred[idx1] - y_pred[idx0])",
     "                    gradient[idx0] += factor * (y_pred[idx0] - y_pred[idx1])\n                    gradient[idx1] += factor * (y_pred[idx1] - y_pred[idx0])",
     ["C03"]),
    ("sparsemlp-skip-grad-scaled", "gemclus/sparse/_mlp_sparse.py", "W_skip_grad = X.T @ tau_hat_grad  # Gradient from the GEMINI objective",
     "W_skip_grad = X.T @ tau_hat_grad / 2", ["C03"]),
    ("kernelrim-penalty-batch-rows", "gemclus/linear/_linear_geminis.py",
     "base_grads[0] += 2 * self.reg * np.dot(self._training_kernel, self.W_)",
     "base_grads[0] += 2 * self.reg * np.dot(X, self.W_) if len(X) == len(self.W_) else 2 * self.reg * np.dot(self._training_kernel, self.W_)", ["C03"]),
    ("mlcl-positions-as-ids", "gemclus/mlcl.py",
     "                if i in last_indices and j in last_indices:\n                    idx0, idx1 = last_indices.index(i), last_indices.index(j)\n                    gradient[idx0] += factor",
     "                if i in last_indices and j in last_indices:\n                    idx0, idx1 = (i, j) if max(i, j) < len(last_indices) else (last_indices.index(i), last_indices.index(j))\n                    gradient[idx0] += factor",
     ["C14", "C03"]),
    ("mlcl-cl-one-sided", "gemclus/mlcl.py",
     "                    gradient[idx1] += factor * (y_pred[idx1] - y_pred[idx0])\n", "", ["C14", "C03"]),
    ("mlcl-factor-dropped-ml", "gemclus/mlcl.py",
     "                    gradient[idx0] -= factor * (y_pred[idx0] - y_pred[idx1])",
     "                    gradient[idx0] -= (y_pred[idx0] - y_pred[idx1])", ["C14", "C03"]),
    ("mlcl-stale-indices", "gemclus/mlcl.py",
     "                disguise_batch.indices = subset.tolist()\n                yield X[subset], affinity_batch",
     "                yield X[subset], affinity_batch\n                disguise_batch.indices = subset.tolist()", ["C14"]),
    ("mlcl-validator-self-pair-cl", "gemclus/mlcl.py",
     "        if np.any(cannot_link[:, 0] == cannot_link[:, 1]):", "        if np.all(cannot_link[:, 0] == cannot_link[:, 1]):", ["C14"]),
    ("mlcl-validator-direct-only", "gemclus/mlcl.py",
     "            if pair_i in component and pair_j in component:",
     "            if pair_i in component and pair_j in component and len(component) == 2:", ["C14"]),
    ("batchify-drop-tail", "gemclus/_base_gemini.py", "        while j < len(X):\n            batch_indices",
     "        while j + batch_size <= len(X) or j == 0:\n            batch_indices", ["C10"]),
    ("batchify-affinity-rows-only", "gemclus/_base_gemini.py",
     "affinity_batch = affinity_matrix[batch_indices][:, batch_indices]",
     "affinity_batch = affinity_matrix[batch_indices][:, :len(batch_indices)]", ["C10"]),
    ("mlcl-batch-sorted-rows", "gemclus/mlcl.py", "                yield X[subset], affinity_batch",
     "                yield X[np.sort(subset)], affinity_batch", ["C10"]),
    ("valscore-offdiag-block", "gemclus/sparse/_base_sparse.py", "affinity = y[j:j+batch_size][:,j:j+batch_size]",
     "affinity = y[j:j+batch_size][:,:len(y[j:j+batch_size])]", ["C10"]),
    ("fit-one-epoch-less", "gemclus/_base_gemini.py", "        for i in range(self.max_iter):\n            # Create batches",
     "        for i in range(self.max_iter - (self.max_iter > 3)):\n            # Create batches", ["C10", "C04"]),
    ("batchify-overlap", "gemclus/_base_gemini.py", "            j += batch_size\n",
     "            j += batch_size if batch_size < 3 else batch_size - 1\n", ["C10"]),
    ("kauri-depth-le", "gemclus/tree/kauri.py", "if parent_depth + 1 < max_depth:", "if parent_depth + 1 <= max_depth:", ["C09"]),
    ("kauri-children-not-queued", "gemclus/tree/kauri.py", "                    if len(right_indices) >= self.min_samples_split:",
     "                    if len(right_indices) > self.min_samples_split + 1:", ["C08"]),
    ("kauri-predict-strict", "gemclus/tree/kauri.py", "X_left = X[:, self.features[node]] <= self.thresholds[node]",
     "X_left = X[:, self.features[node]] < self.thresholds[node]", ["C09", "C19"]),
    ("kauri-print-swapped", "gemclus/tree/kauri.py",
     "        print_node(left_child)\n        print(\"| \" * current_depth, \"|=\", f\"{feature_name} > {threshold}\", sep=\"\")\n        print_node(right_child)",
     "        print_node(right_child)\n        print(\"| \" * current_depth, \"|=\", f\"{feature_name} > {threshold}\", sep=\"\")\n        print_node(left_child)",
     ["C19"]),
    ("kauri-print-target-of-parent", "gemclus/tree/kauri.py",
     'print("| " * current_depth, f"Cluster: {kauri_tree.tree_.target[node_id]}")',
     'print("| " * current_depth, f"Cluster: {kauri_tree.tree_.target[max(node_id - 1, 0)]}")', ["C19"]),
    ("kauri-print-names-by-rank", "gemclus/tree/kauri.py", "            feature_name = feature_names[feature]",
     "            feature_name = feature_names[sorted(set(x for x in kauri_tree.tree_.features if x is not None)).index(feature)]", ["C19"]),
    ("kauri-max-leaves-plus-one", "gemclus/tree/kauri.py",
     "        max_leaves = self.max_leaves if self.max_leaves is not None else n",
     "        max_leaves = self.max_leaves + 1 if self.max_leaves is not None else n", ["C09"]),
    ("kauri-score-unnormalised", "gemclus/tree/kauri.py", "        return gemini_objective(y_pred, kernel)",
     "        return gemini_objective(y_pred, kernel) / max(1, len(np.unique(y_pred)) - 3)", ["C09", "C08"]),
    ("cpp-switch-sign", "gemclus/tree/_utils.cpp",
     "__pyx_v_left_switch = (__pyx_v_left_switch + (__pyx_t_8 / ((__pyx_t_5numpy_float64_t)__pyx_v_delta_size_k_prime)));",
     "__pyx_v_left_switch = (__pyx_v_left_switch - (__pyx_t_8 / ((__pyx_t_5numpy_float64_t)__pyx_v_delta_size_k_prime)));", ["C08"]),
    ("cpp-min-leaf-off-by-one", "gemclus/tree/_utils.cpp", "__pyx_t_36 = (__pyx_v_l_split < (__pyx_v_min_leaf - 1));",
     "__pyx_t_36 = (__pyx_v_l_split < (__pyx_v_min_leaf - 2));", ["C08", "C09"]),
    ("cpp-last-threshold-skipped", "gemclus/tree/_utils.cpp",
     "__pyx_t_36 = (__pyx_v_l_split > ((__pyx_v_n_leaf - __pyx_v_min_leaf) - 1));",
     "__pyx_t_36 = (__pyx_v_l_split >= ((__pyx_v_n_leaf - __pyx_v_min_leaf) - 1));", ["C08"]),
    ("sparse-linear-threshold-initial-lr", "gemclus/sparse/_linear_sparse.py",
     "            new_W = linear_prox_grad(self.W_, self.alpha * self.optimiser_.learning_rate)",
     "            new_W = linear_prox_grad(self.W_, self.alpha * self.learning_rate)", ["C06"]),
    ("sparse-mlp-w1-not-written-back", "gemclus/sparse/_mlp_sparse.py",
     "        np.copyto(self.W_skip_, new_W_skip)\n        np.copyto(self.W1_, new_W1)",
     "        np.copyto(self.W_skip_, new_W_skip)", ["C06"]),
    ("sparse-mlp-restore-misses-w1", "gemclus/sparse/_mlp_sparse.py",
     "                np.copyto(self.W1_, best_weights[0])\n", "", ["C07"]),
    ("sparse-selection-tolerance", "gemclus/sparse/_linear_sparse.py",
     "        return np.nonzero(np.linalg.norm(self.W_, axis=1, ord=2))[0]",
     "        return np.nonzero(np.linalg.norm(self.W_, axis=1, ord=2) > 1e-3)[0]", ["C06"]),
    ("check-groups-completion-drops-last", "gemclus/sparse/_base_sparse.py",
     "new_groups = groups + [[i] for i in range(n_features_in) if i not in all_indices]",
     "new_groups = groups + [[i] for i in range(n_features_in - 1) if i not in all_indices]", ["C06"]),
    ("sparse-mlp-group-prox-skips-alpha-zero", "gemclus/sparse/_mlp_sparse.py",
     "            new_W_skip, new_W1 = group_mlp_prox_grad(self.groups_, self.W_skip_, self.W1_,\n                                                     self.alpha * self.optimiser_.learning_rate, self.M)",
     "            new_W_skip, new_W1 = group_mlp_prox_grad(self.groups_, self.W_skip_, self.W1_,\n                                                     self.alpha * self.optimiser_.learning_rate, self.M) if self.alpha > 0 else (self.W_skip_, self.W1_)",
     ["C06"]),
    ("path-alpha-additive", "gemclus/sparse/_base_sparse.py", "        alpha *= alpha_multiplier\n", "        alpha += alpha_multiplier\n", ["C07"]),
    ("path-keep-strict", "gemclus/sparse/_base_sparse.py", "        if iteration_gemini_score >= keep_threshold * best_gemini_score:",
     "        if iteration_gemini_score > keep_threshold * best_gemini_score:", ["C07"]),
    ("path-best-strict", "gemclus/sparse/_base_sparse.py",
     "        if iteration_gemini_score >= best_gemini_score and clf._n_selected_features() == X.shape[1]:",
     "        if iteration_gemini_score >= best_gemini_score:", ["C07"]),
    ("path-history-reference-score", "gemclus/sparse/_base_sparse.py", "        geminis.append(iteration_gemini_score)",
     "        geminis.append(validation_gemini_score)", ["C07"]),
    ("path-linear-restore-misses-bias", "gemclus/sparse/_linear_sparse.py", "                np.copyto(self.b_, best_weights[1])\n", "", ["C07"]),
    ("path-min-features-default-one", "gemclus/sparse/_base_sparse.py",
     "                      f\"Setting it to default: 2\")\n        min_features = 2",
     "                      f\"Setting it to default: 2\")\n        min_features = 1", ["C07"]),
    ("path-keep-threshold-not-reset", "gemclus/sparse/_base_sparse.py",
     "                      f\"to default: 0.9\")\n        keep_threshold = 0.9", "                      f\"to default: 0.9\")", ["C07"]),
    ("path-loop-ge", "gemclus/sparse/_base_sparse.py", "    while clf._n_selected_features() > min_features:",
     "    while clf._n_selected_features() >= max(min_features, 1):", ["C07"]),
    ("path-nan-no-break", "gemclus/sparse/_base_sparse.py", "        if np.isnan(iteration_gemini_score):\n            break\n", "", ["C07"]),
    ("path-patience-off-by-one", "gemclus/sparse/_base_sparse.py", "        while i < clf.max_iter and patience < max_patience:",
     "        while i < clf.max_iter and patience <= max_patience:", ["C07"]),
    ("path-initial-fit-keeps-alpha", "gemclus/sparse/_base_sparse.py", "    clf.set_params(alpha=0)\n", "    clf.set_params(alpha=alpha * 0.5)\n", ["C07"]),
    ("douglas-unsorted-cuts", "gemclus/tree/douglas.py", "        sorted_cut_points = cut_points[order]", "        sorted_cut_points = cut_points", ["C15"]),
    ("douglas-mask-position-index", "gemclus/tree/douglas.py",
     "        leaf_binning = lambda z: self._leaf_binning(X[:, z[0]:z[0] + 1], z[1])\n        cut_iterator = map(leaf_binning, self.cut_points_list_)",
     "        leaf_binning = lambda kz: self._leaf_binning(X[:, kz[0]:kz[0] + 1], kz[1][1])\n        cut_iterator = map(leaf_binning, enumerate(self.cut_points_list_))",
     ["C15"]),
    ("douglas-temperature-inverted", "gemclus/tree/douglas.py", "        return softmax(logits / self.temperature), order",
     "        return softmax(logits * min(self.temperature, 1 / self.temperature)), order", ["C15"]),
    ("douglas-active-inclusive", "gemclus/tree/douglas.py",
     "            if np.any((cut_points > feature.min()) & (cut_points < feature.max())):",
     "            if np.any((cut_points >= feature.min()) & (cut_points <= feature.max())):", ["C15"]),
    ("douglas-active-uses-list-position", "gemclus/tree/douglas.py",
     "        for (feature_index, cut_points) in self.cut_points_list_:\n            feature = X[:, feature_index]",
     "        for k, (feature_index, cut_points) in enumerate(self.cut_points_list_):\n            feature = X[:, k]", ["C15"]),
    ("douglas-weights-W-from-zero", "gemclus/tree/douglas.py",
     "W = np.expand_dims(np.linspace(1, n + 1, n + 1, dtype=np.float64), axis=0)",
     "W = np.expand_dims(np.linspace(0, n, n + 1, dtype=np.float64) * (n + 1) / max(n, 1), axis=0)", ["C15"]),
    ("kernelrim-predict-batch-normalised", "gemclus/linear/_linear_geminis.py",
     "        kernel = self._compute_kernel(X)\n        return self._infer(kernel)",
     "        kernel = self._compute_kernel(X)\n        return self._infer(kernel - kernel.mean(0) * 1e-3)", ["C18"]),
    ("mlp-infer-batch-statistic", "gemclus/mlp/_mlp_geminis.py",
     "        if retain:\n            self.H_ = H\n        return softmax(H @ self.W2_ + self.b2_)",
     "        if retain:\n            self.H_ = H\n        else:\n            H = H - 1e-3 * H.max(0)\n        return softmax(H @ self.W2_ + self.b2_)", ["C18"]),
    ("kernelrim-kernel-against-query", "gemclus/linear/_linear_geminis.py",
     "            kernel = pairwise_kernels(X, self.input_data_, metric=self.base_kernel, **_params)",
     "            kernel = pairwise_kernels(X, self.input_data_ if len(X) != len(self.input_data_) else X, metric=self.base_kernel, **_params)", ["C18"]),
    ("kauri-predict-first-row-feature", "gemclus/tree/kauri.py",
     "            predictions = np.zeros(len(X), dtype=np.int64)\n            predictions[X_left]",
     "            predictions = np.zeros(len(X), dtype=np.int64)\n            X_left = X_left | (X_left[:1] & (len(X) > 7))\n            X_right = ~X_left\n            predictions[X_left]", ["C18", "C09"]),
    ("douglas-nan-division-back", "gemclus/tree/douglas.py",
     "            softmax_grad = np.divide(summed_backprop, self._all_binnings[i], out=np.zeros_like(summed_backprop),\n                                     where=self._all_binnings[i] != 0)",
     "            softmax_grad = summed_backprop / self._all_binnings[i]", ["C17", "C03"]),
    ("tv-squeeze-back", "gemclus/gemini/_fdivergences.py",
     "gradients = np.squeeze(extended_p_y_x_grad, axis=1) + np.squeeze(extended_p_y_grad, axis=2).mean(0)",
     "gradients = np.squeeze(extended_p_y_x_grad) + np.squeeze(extended_p_y_grad).mean(0)", ["C17", "C04"]),
    ("prox-zero-row-division", "gemclus/sparse/_prox_grad.py",
     "W_star = np.maximum(W_norms - alpha, 0) * W / np.where(W_norms == 0, 1, W_norms)",
     "W_star = np.maximum(W_norms - alpha, 0) * W / W_norms", ["C17", "C05"]),
    ("kl-log-unclipped", "gemclus/gemini/_fdivergences.py",
     "        log_p_y_x = np.log(p_y_x)\n        log_p_y = np.log(p_y)",
     "        log_p_y_x = np.log(y_pred)\n        log_p_y = np.log(p_y)", ["C17", "C13"]),
    ("hellinger-grad-unclipped-division", "gemclus/gemini/_fdivergences.py",
     "        cluster_wise_estimates = np.sqrt(p_y_x * p_y)\n        estimates = np.sum(cluster_wise_estimates, axis=1)",
     "        cluster_wise_estimates = np.sqrt(y_pred * p_y)\n        estimates = np.sum(cluster_wise_estimates, axis=1)", ["C17", "C13"]),
    ("constraint-lr-closed-left", "gemclus/_base_gemini.py", '"learning_rate": [Interval(Real, 0, None, closed="neither")],',
     '"learning_rate": [Interval(Real, 0, None, closed="left")],', ["C16"]),
    ("constraint-kauri-leaf-split-slack", "gemclus/tree/kauri.py", "        if self.min_samples_leaf * 2 > self.min_samples_split:",
     "        if self.min_samples_leaf * 2 > self.min_samples_split + 1:", ["C16"]),
    ("check-groups-upper-bound", "gemclus/sparse/_base_sparse.py", "if min(all_indices) < 0 or max(all_indices) >= n_features_in:",
     "if min(all_indices) < 0 or max(all_indices) > n_features_in:", ["C16"]),
    ("check-groups-partial-duplicates", "gemclus/sparse/_base_sparse.py",
     "            if len(set(all_indices)) != len(all_indices):\n                raise ValueError(\"There cannot be duplicate entries in groups.\")\n", "", ["C16"]),
    ("constraint-epsilon-closed", "gemclus/gemini/_geomdistances.py",
     '            "kernel_params": [dict, None],\n            "epsilon": [Interval(Real, 0, 1, closed="neither")]',
     '            "kernel_params": [dict, None],\n            "epsilon": [Interval(Real, 0, 1, closed="both")]', ["C16"]),
    ("douglas-mask-length-unchecked", "gemclus/tree/douglas.py",
     "            if len(self.feature_mask) != X.shape[1]:", "            if len(self.feature_mask) > X.shape[1]:", ["C16"]),
    ("gmm-proportions-unchecked", "gemclus/data/synthetic_data.py", "    if np.sum(pvals) != 1:", "    if np.sum(pvals) > 1.5:\n        pass\n    pvals = pvals / np.sum(pvals)\n    if False:", ["C16", "C20"]),
    ("fit-init-before-affinity-back", "gemclus/_base_gemini.py",
     "        gemini = self.get_gemini()\n\n        if self.verbose:\n            print(f\"Computing affinity\")\n\n        affinity = gemini.compute_affinity(X, y)\n\n        # Initialise the weights\n        if self.verbose:\n            print(\"Initialising parameters\")\n        self._init_params(random_state, X)\n        weights = self._get_weights()\n",
     "        # Initialise the weights\n        self._init_params(random_state, X)\n        weights = self._get_weights()\n        gemini = self.get_gemini()\n        affinity = gemini.compute_affinity(X, y)\n", ["C16"]),
    ("kauri-min-samples-unchecked", "gemclus/tree/kauri.py", "ensure_min_samples=self.min_samples_leaf)", "ensure_min_samples=1)", ["C16"]),
    ("linearmmd-drops-kernel-params", "gemclus/linear/_linear_geminis.py",
     "        return MMDGEMINI(ovo=self.ovo, kernel=self.kernel, kernel_params=self.kernel_params)",
     "        return MMDGEMINI(ovo=self.ovo, kernel=self.kernel)", ["C11"]),
    ("mlpwasserstein-ignores-ovo", "gemclus/mlp/_mlp_geminis.py",
     "        return WassersteinGEMINI(ovo=self.ovo, metric=self.metric, metric_params=self.metric_params)",
     "        return WassersteinGEMINI(metric=self.metric, metric_params=self.metric_params)", ["C11"]),
    ("gemini-none-is-ovo", "gemclus/_base_gemini.py", "        if self.gemini is None:\n            return _str_to_gemini(\"mmd_ova\")",
     "        if self.gemini is None:\n            return _str_to_gemini(\"mmd_ovo\")", ["C11", "C01"]),
    ("sparselinearmi-kl-ovo", "gemclus/sparse/_linear_sparse.py", '            gemini="mi",\n            groups=groups,',
     '            gemini="kl_ovo",\n            groups=groups,', ["C11"]),
    ("kauri-kernel-name-ignored", "gemclus/tree/kauri.py", "            kernel = pairwise_kernels(X, metric=self.kernel)",
     "            kernel = pairwise_kernels(X, metric=self.kernel if self.kernel != 'laplacian' else 'rbf')", ["C11"]),
    ("wasserstein-metric-params-dropped", "gemclus/gemini/_geomdistances.py",
     "        return pairwise_distances(X, metric=self.metric, **_params)", "        return pairwise_distances(X, metric=self.metric)", ["C11"]),
    ("score-affinity-from-labels-arg", "gemclus/_base_gemini.py", "        K = gemini.compute_affinity(X, y)\n        y_pred = self.predict_proba(X)",
     "        K = gemini.compute_affinity(X, y if y is not None else None)\n        K = K if K is None or y is not None else (K + K.T) / 2 * (1 + 1e-7)\n        y_pred = self.predict_proba(X)", ["C11", "C04"]),
    ("categoricalmmd-kernel-params-to-linear", "gemclus/nonparametric/_categorical_models.py",
     "        return MMDGEMINI(ovo=self.ovo, kernel=self.kernel, kernel_params=self.kernel_params)",
     "        return MMDGEMINI(ovo=self.ovo, kernel=self.kernel, kernel_params=self.kernel_params if self.kernel != 'sigmoid' else None)", ["C11"]),
]


def sh(cmd, **kw):
    return subprocess.run(cmd, shell=True, capture_output=True, text=True, **kw)


def main():
    sel = sys.argv[1:]
    if not os.path.isdir(WT):
        print("create the scratch worktree first: git -C /repo worktree add /tmp/wt-mut HEAD (+ copy _utils.cpp/.so)")
        return 2
    sh(f"git -C {WT} checkout -- .")
    head = sh("git -C /repo rev-parse HEAD").stdout.strip()
    sh(f"git -C {WT} checkout -q --detach {head}")
    sh(f"cp /repo/gemclus/tree/_utils.cpp {WT}/gemclus/tree/_utils.cpp")
    missed = 0
    for name, rel, old, new, props in MUTANTS:
        if sel and not any(s in name for s in sel):
            continue
        path = os.path.join(WT, rel)
        src = open(path).read()
        if src.count(old) != 1:
            print(f"{name}: pattern found {src.count(old)}x in {rel} - mutant not applicable")
            continue
        open(path, "w").write(src.replace(old, new))
        for pid in props:
            env = dict(os.environ, GCVERIF_REPO=WT)
            r = subprocess.run([os.path.join(VERIF, "check"), pid, "quick"], capture_output=True, text=True, env=env)
            status = {0: "MISSED", 1: "CAUGHT", 2: "INCONCLUSIVE"}.get(r.returncode, f"rc={r.returncode}")
            mech = [l.strip()[:160] for l in r.stdout.split("\n") if l.strip().startswith("mechanism=")]
            print(f"{name:40s} {pid} {status}  {mech[:2]}")
            if r.returncode != 1:
                missed += 1
        sh(f"git -C {WT} checkout -- .")
        if rel.endswith(".cpp"):
            sh(f"cp /repo/gemclus/tree/_utils.cpp {WT}/gemclus/tree/_utils.cpp")
    # the evidence files were rewritten by runs against the scratch tree: the caller should re-run the real checks
    print(f"missed={missed}  (evidence/*.json now describe runs on the scratch tree - re-run checks on /repo before committing)")
    return 0


if __name__ == "__main__":
    sys.exit(main())
