#!/usr/bin/env python3
"""Replace the seeded-changes table in DESIGN.md (between the SEEDTABLE markers) by the output of seed_table.py."""
import os, re, subprocess
here = os.path.dirname(os.path.dirname(os.path.abspath(__file__)))
tab = subprocess.run(["python3", os.path.join(here, "tools", "seed_table.py")], capture_output=True, text=True).stdout
p = os.path.join(here, "DESIGN.md")
s = open(p).read()
s = re.sub(r"<!-- SEEDTABLE:BEGIN -->.*?<!-- SEEDTABLE:END -->", "<!-- SEEDTABLE:BEGIN -->\n" + tab + "<!-- SEEDTABLE:END -->", s, flags=re.S)
open(p, "w").write(s)
print("table rows:", tab.count("\n") - 2)
