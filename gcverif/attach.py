"""Rebinding patcher, monitor context and reach probes.

The code base binds the functions of interest by ``from m import f`` in several
modules, so a decorator around one reference would miss calls.  ``Patcher.rebind``
replaces *every* reference to the original function object found in module
globals and class dicts, and restores them on exit.
"""
import hashlib
import json
import sys
import types

import numpy as np


def jsonable(o, maxlen=400):
    """Best-effort conversion of a case / observation to something json.dump accepts."""
    if isinstance(o, dict):
        return {str(k): jsonable(v, maxlen) for k, v in o.items()}
    if isinstance(o, (list, tuple, set, frozenset)):
        return [jsonable(v, maxlen) for v in o]
    if isinstance(o, np.ndarray):
        if o.size <= maxlen:
            return jsonable(o.tolist(), maxlen)
        return {"ndarray_shape": list(o.shape), "dtype": str(o.dtype),
                "head": jsonable(o.ravel()[:16].tolist(), maxlen)}
    if isinstance(o, (np.integer,)):
        return int(o)
    if isinstance(o, (np.floating,)):
        o = float(o)
    if isinstance(o, (np.bool_,)):
        return bool(o)
    if isinstance(o, float):
        if o != o:
            return "nan"
        if o in (float("inf"), float("-inf")):
            return "inf" if o > 0 else "-inf"
        return o
    if isinstance(o, (int, str, bool)) or o is None:
        return o
    return repr(o)[:300]


def sig_hash(*parts):
    h = hashlib.sha1(json.dumps(jsonable(parts), sort_keys=True).encode()).hexdigest()
    return h[:16]


class Ctx:
    """Counters, samples, distinct non-trivial case signatures and violations of one shard."""

    def __init__(self, prop):
        self.prop = prop
        self.counters = {}
        self.samples = []
        self.nontrivial = set()
        self.violations = []
        self.errors = []          # exceptions raised by monitors themselves (harness errors)
        self.case = None          # descriptor of the case currently being executed
        self.max_samples = 6

    def count(self, name, k=1):
        self.counters[name] = self.counters.get(name, 0) + int(k)

    def maxi(self, name, v):
        v = float(v)
        if v == v:
            self.counters[name] = max(self.counters.get(name, 0.0), v)

    def sample(self, obj, force=False):
        if force or len(self.samples) < self.max_samples:
            self.samples.append(jsonable(obj))

    def distinct(self, *sig):
        self.nontrivial.add(sig_hash(*sig))

    def violation(self, monitor, mechanism, observed=None, expected=None, detail=None):
        """Record a violation of the property found by `monitor`.

        `mechanism` is a short stable name computed by the monitor's classifier
        (never from witness values); it is what known_findings.json is keyed by."""
        v = {"property": self.prop, "monitor": monitor, "mechanism": mechanism,
             "case": jsonable(self.case), "observed": jsonable(observed),
             "expected": jsonable(expected), "detail": jsonable(detail)}
        self.count("violations_raw")
        # keep at most 40 full records per shard, but count all by mechanism
        self.count("viol:" + mechanism)
        if len(self.violations) < 40 or not any(x["mechanism"] == mechanism for x in self.violations):
            self.violations.append(v)

    def monitor_error(self, where):
        import traceback
        self.count("harness_errors")
        if len(self.errors) < 10:
            self.errors.append({"where": where, "case": jsonable(self.case), "tb": traceback.format_exc()[-2500:]})

    def guard(self, fn, where="monitor"):
        """Wrap a monitor callback: its own exceptions must never propagate into the code under observation."""
        def guarded(*a, **k):
            try:
                return fn(*a, **k)
            except Exception:
                self.monitor_error(where)
        return guarded

    def result(self):
        return {"counters": self.counters, "samples": self.samples,
                "nontrivial": sorted(self.nontrivial), "violations": self.violations}


class Patcher:
    def __init__(self):
        self._undo = []

    def setattr(self, obj, name, new):
        had = name in vars(obj) if hasattr(obj, "__dict__") else hasattr(obj, name)
        old = vars(obj)[name] if had and hasattr(obj, "__dict__") else getattr(obj, name, None)
        self._undo.append((obj, name, had, old))
        setattr(obj, name, new)

    def rebind(self, orig, new):
        """Replace every reference to function object `orig` in module globals and class dicts."""
        n = 0
        for mod in list(sys.modules.values()):
            if not isinstance(mod, types.ModuleType):
                continue
            d = getattr(mod, "__dict__", None)
            if not d:
                continue
            for k, v in list(d.items()):
                if v is orig:
                    self.setattr(mod, k, new)
                    n += 1
                elif isinstance(v, type) and str(getattr(v, "__module__", "")).startswith("gemclus"):
                    for ck, cv in list(vars(v).items()):
                        if cv is orig:
                            self.setattr(v, ck, new)
                            n += 1
        return n

    def restore(self):
        for obj, name, had, old in reversed(self._undo):
            try:
                if had:
                    setattr(obj, name, old)
                else:
                    delattr(obj, name)
            except Exception:
                pass
        self._undo = []

    def __enter__(self):
        return self

    def __exit__(self, *a):
        self.restore()
        return False


# ---------------------------------------------------------------------------
# reach probes: which lines of the anchored functions did the workload execute
# ---------------------------------------------------------------------------
class Reach:
    """sys.monitoring LINE probes on a set of code objects; each line disables itself after its first hit."""

    TOOL = 4  # a free tool id (0-5); 4 is unused by debuggers/coverage/profilers by convention

    def __init__(self):
        self.codes = {}   # code -> (label, set(all lines))
        self.hit = {}     # code -> set(lines)
        self.active = False

    def add_function(self, func, label=None):
        func = getattr(func, "__wrapped__", func)
        code = getattr(func, "__code__", None)
        if code is None:
            return
        lines = {ln for (_, _, ln) in code.co_lines() if ln is not None and ln != code.co_firstlineno}
        self.codes[code] = (label or f"{func.__module__}.{func.__qualname__}", lines)
        self.hit[code] = set()

    def add_class(self, cls, names=None):
        for k, v in vars(cls).items():
            if isinstance(v, types.FunctionType) and (names is None or k in names):
                self.add_function(v, f"{cls.__module__}.{cls.__name__}.{k}")

    def start(self):
        mon = sys.monitoring
        try:
            mon.use_tool_id(self.TOOL, "gcverif-reach")
        except ValueError:
            return
        self.active = True

        def on_line(code, line):
            h = self.hit.get(code)
            if h is not None:
                h.add(line)
            return mon.DISABLE

        mon.register_callback(self.TOOL, mon.events.LINE, on_line)
        for code in self.codes:
            mon.set_local_events(self.TOOL, code, mon.events.LINE)

    def stop(self):
        if not self.active:
            return
        mon = sys.monitoring
        for code in self.codes:
            try:
                mon.set_local_events(self.TOOL, code, 0)
            except Exception:
                pass
        mon.register_callback(self.TOOL, mon.events.LINE, None)
        mon.free_tool_id(self.TOOL)
        self.active = False

    def report(self):
        out = {}
        for code, (label, lines) in self.codes.items():
            out[label] = {"file": code.co_filename, "lines_hit": sorted(self.hit[code] & lines),
                          "lines_total": len(lines)}
        return out
