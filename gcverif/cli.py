"""Parent / shard processes, aggregation, verdicts.  See DESIGN.md section 3."""
import concurrent.futures as cf
import importlib
import json
import os
import shutil
import subprocess
import sys
import time
import traceback

HOME = os.environ.get("GCVERIF_HOME", os.path.dirname(os.path.dirname(os.path.abspath(__file__))))
REPO = os.environ.get("GCVERIF_REPO", "/repo")
NCPU = min(16, os.cpu_count() or 4)


def out(*a):
    try:
        print(*a, flush=True)
    except BrokenPipeError:
        pass


def load_prop(pid):
    return importlib.import_module(f"gcverif.props.{pid.lower()}")


def known_findings(pid):
    path = os.path.join(HOME, "known_findings.json")
    if not os.path.exists(path):
        return []
    data = json.load(open(path))
    return [f for f in data.get("findings", []) if f.get("property") == pid]


# ---------------------------------------------------------------------------
# shard process
# ---------------------------------------------------------------------------
def run_shard(pid, tier, seed, i, n, out_path, only_case=None):
    from .attach import Ctx, Reach
    from . import native
    prop = load_prop(pid)
    variant = os.environ.get("GCVERIF_NATIVE", "plain")
    native_info = None
    if getattr(prop, "NATIVE", False):
        native_info = native.install(variant)
    import numpy as np
    np.seterr(all="ignore")
    import warnings
    warnings.filterwarnings("ignore")
    ctx = Ctx(pid)
    reach = Reach()
    t0 = time.time()
    errors = []
    try:
        if hasattr(prop, "reach_targets"):
            try:
                prop.reach_targets(reach)
                reach.start()
            except Exception:
                # reach probes are bookkeeping for the evidence file (which anchored lines ran); a private function they
                # name may be gone in a refactored tree - that is reported in the counters, it decides nothing
                ctx.count("reach_probe_setup_failed")
        state = prop.setup(ctx) if hasattr(prop, "setup") else None
        if only_case is not None:
            todo = [only_case]
        else:
            from . import repotests
            allc = repotests.all_cases(prop, tier, seed)
            todo = [c for j, c in enumerate(allc) if j % n == i]
        for c in todo:
            ctx.case = c
            ctx.count("cases")
            try:
                if isinstance(c, dict) and c.get("kind") == "repotests":
                    from . import repotests
                    repotests.run(c, ctx, state)
                else:
                    prop.run_case(c, ctx, state)
            except Exception:
                tb = traceback.format_exc()
                errors.append({"where": "run_case", "case": c, "tb": tb[-3000:]})
                ctx.count("harness_errors")
                if len(errors) > 20:
                    break
        if state is not None and hasattr(state, "close"):
            state.close()
    except Exception:
        errors.append({"where": "shard", "tb": traceback.format_exc()[-3000:]})
    reach.stop()
    try:
        from . import gen as _gen
        for k, v in _gen.STATS.items():
            ctx.count(k, v)
    except Exception:
        pass
    res = ctx.result()
    res["errors"] = errors + ctx.errors
    res["reach"] = reach.report()
    res["wall_s"] = time.time() - t0
    res["native"] = native_info
    tmp = out_path + ".tmp"
    with open(tmp, "w") as f:
        json.dump(res, f)
    os.replace(tmp, out_path)


# ---------------------------------------------------------------------------
# parent
# ---------------------------------------------------------------------------
def _spawn(pid, tier, seed, i, n, out_path, timeout, env_extra=None):
    env = dict(os.environ)
    if env_extra:
        env.update(env_extra)
    cmd = [sys.executable, "-m", "gcverif.cli", "shard", pid, tier, str(seed), str(i), str(n), out_path]
    log = out_path + ".log"
    with open(log, "w") as lf:
        try:
            p = subprocess.run(cmd, env=env, stdout=lf, stderr=subprocess.STDOUT, timeout=timeout, cwd=HOME)
            return ("exit", p.returncode)
        except subprocess.TimeoutExpired:
            return ("timeout", None)


def run_check(pid, tier, seed):
    prop = load_prop(pid)
    t0 = time.time()
    work = os.path.join(HOME, ".work", f"{pid}-{tier}-{os.getpid()}")
    shutil.rmtree(work, ignore_errors=True)
    os.makedirs(work)
    inconclusive = []
    # native module
    native_meta = None
    if getattr(prop, "NATIVE", False):
        from . import native
        native_meta = native.prepare(sanitize=(tier == "thorough" and getattr(prop, "SANITIZE", False)))
        if native_meta.get("error"):
            inconclusive.append("native build failed: " + native_meta["error"][:200])
    from . import repotests
    ncases = len(repotests.all_cases(prop, tier, seed))
    nshards = max(1, min(NCPU, ncases))
    timeout = getattr(prop, "SHARD_TIMEOUT", {}).get(tier, 1500 if tier == "quick" else 7200)
    jobs = []
    for i in range(nshards):
        jobs.append((i, nshards, os.path.join(work, f"shard{i}.json"), None, tier, "plain"))
    # the same synthetic workload again on the sanitizer build (thorough tier of native properties)
    if native_meta and native_meta.get("san_so") and hasattr(prop, "SAN_TIER"):
        nsan = min(NCPU, max(1, len(prop.cases(prop.SAN_TIER, seed))))
        for i in range(nsan):
            jobs.append((i, nsan, os.path.join(work, f"san{i}.json"), native_meta["san_env"], prop.SAN_TIER, "san"))
    results = []
    with cf.ThreadPoolExecutor(NCPU) as ex:
        futs = {}
        for (i, n, outp, envx, jtier, tag) in jobs:
            envx2 = dict(envx or {})
            envx2["GCVERIF_NATIVE"] = tag
            futs[ex.submit(_spawn, pid, jtier, seed, i, n, outp, timeout, envx2)] = (i, outp, tag)
        for fut in cf.as_completed(futs):
            i, outp, tag = futs[fut]
            st, rc = fut.result()
            if st == "timeout":
                inconclusive.append(f"{tag} shard {i} hit its wall-clock watchdog ({timeout}s)")
                continue
            if not os.path.exists(outp):
                logtxt = open(outp + ".log").read()[-3000:] if os.path.exists(outp + ".log") else ""
                if tag == "san" and ("ERROR: AddressSanitizer" in logtxt or "runtime error:" in logtxt):
                    results.append({"counters": {}, "samples": [], "nontrivial": [], "errors": [], "reach": {},
                                    "violations": [{"property": pid, "monitor": "sanitizer",
                                                    "mechanism": "sanitizer-report", "case": None,
                                                    "observed": logtxt[-2500:], "expected": "no report",
                                                    "detail": None}]})
                else:
                    inconclusive.append(f"{tag} shard {i} died (rc={rc}): {logtxt[-400:]!r}")
                continue
            r = json.load(open(outp))
            r["tag"] = tag
            if tag == "san":
                logtxt = open(outp + ".log").read() if os.path.exists(outp + ".log") else ""
                if "ERROR: AddressSanitizer" in logtxt or "runtime error:" in logtxt:
                    r["violations"].append({"property": pid, "monitor": "sanitizer", "mechanism": "sanitizer-report",
                                            "case": None, "observed": logtxt[-2500:], "expected": "no report",
                                            "detail": None})
            results.append(r)
    # aggregate
    counters, samples, nontrivial, violations, errors, reach = {}, [], set(), [], [], {}
    for r in results:
        pre = "san:" if r.get("tag") == "san" else ""
        for k, v in r["counters"].items():
            if isinstance(v, float) and k.startswith("max:"):
                counters[pre + k] = max(counters.get(pre + k, 0.0), v)
            else:
                counters[pre + k] = counters.get(pre + k, 0) + v
        if len(samples) < 8:
            samples.extend(r["samples"][:2])
        nontrivial.update(r["nontrivial"])
        violations.extend(r["violations"])
        errors.extend(r["errors"])
        for k, v in r.get("reach", {}).items():
            cur = reach.setdefault(k, {"lines_hit": set(), "lines_total": v["lines_total"]})
            cur["lines_hit"].update(v["lines_hit"])
    if hasattr(prop, "finalize"):
        prop.finalize(counters, violations, inconclusive)
    # a couple of cases lost to an error of the harness itself do not make the whole run undecided (they are reported
    # in the evidence and on stdout); more than that, or more than 1 % of the cases, does
    ncases_run = max(1, int(counters.get("cases", 0)))
    tolerated = len(errors) <= 2 and len(errors) <= 0.01 * ncases_run
    for e in errors[:5]:
        msg = "harness error in %s: %s" % (e.get("where"), e.get("tb", "")[-600:])
        if tolerated:
            out("NOTE " + msg.replace("\n", " | ")[:700])
        else:
            inconclusive.append(msg)
    # required monitors
    for name, minimum in getattr(prop, "REQUIRED", {}).get(tier, getattr(prop, "REQUIRED", {}).get("quick", {})).items():
        if counters.get(name, 0) < minimum:
            inconclusive.append(f"monitor counter {name}={counters.get(name, 0)} < required {minimum}")
    if native_meta and native_meta.get("stale"):
        inconclusive.append("gemclus/tree/_utils.cpp is not the translation of the current _utils.pyx: "
                            + native_meta["stale"][:300])
    # classify
    kf = known_findings(pid)
    open_mech = {f["mechanism"]: f for f in kf if f.get("status") == "open"}
    new, known_seen = [], {}
    for v in violations:
        if v["mechanism"] in open_mech:
            known_seen[v["mechanism"]] = known_seen.get(v["mechanism"], 0) + 1
        else:
            new.append(v)
    rep_dir = os.path.join(os.environ.get("GCVERIF_REPLAY_DIR") or os.path.join(HOME, "replays"), pid)
    lines = []
    seen_mech = {}
    for v in new:
        seen_mech.setdefault(v["mechanism"], []).append(v)
    for mech, vs in seen_mech.items():
        for v in vs[:3]:
            os.makedirs(rep_dir, exist_ok=True)
            from .attach import sig_hash
            path = os.path.join(rep_dir, f"{mech.replace('/', '_')[:60]}-{sig_hash(v)}.json")
            json.dump({"property": pid, "tier": tier, "seed": seed, "violation": v}, open(path, "w"), indent=1)
            lines.append(f"VIOLATION property={pid} replay={path}")
    for mech, f in open_mech.items():
        out(f"KNOWN-FINDING: property={pid} {mech}: {f.get('what', '')} "
              f"[observed {known_seen.get(mech, 0)}x in this run]")
    wall = time.time() - t0
    reach_out = {k: {"hit": len(v["lines_hit"]), "total": v["lines_total"]} for k, v in sorted(reach.items())}
    evaluations = int(counters.get(getattr(prop, "EVAL_COUNTER", "cases"), counters.get("cases", 0)))
    ev = {
        "property_id": pid, "tier": tier, "seed": int(seed), "level": "exploration",
        "coverage": {
            "evaluations": max(evaluations, 0),
            "distinct_nontrivial": len(nontrivial),
            "rule": getattr(prop, "RULE", ""),
            "samples": samples[:8] or ["<none>"],
            "counters": {k: (round(v, 6) if isinstance(v, float) else v) for k, v in sorted(counters.items())},
            "reach": reach_out,
            "shards": len(jobs),
            "known_findings_observed": known_seen,
            "inconclusive_reasons": inconclusive,
            "harness_errors": [("%s: %s" % (e.get("where"), e.get("tb", "")[-300:])) for e in errors[:5]],
            "verdict": "violated" if new else ("inconclusive" if inconclusive else "held-on-observed"),
            "native": native_meta,
        },
        "assumptions": getattr(prop, "ASSUMPTIONS", []),
        "wall_s": round(wall, 2),
        "violations": len(new),
    }
    evdir = os.environ.get("GCVERIF_EVIDENCE_DIR") or os.path.join(HOME, "evidence")
    os.makedirs(evdir, exist_ok=True)
    json.dump(ev, open(os.path.join(evdir, f"{pid}.json"), "w"), indent=1)
    shutil.rmtree(work, ignore_errors=True)
    out(f"[{pid} {tier} seed={seed}] cases={counters.get('cases', 0)} evaluations={evaluations} "
          f"distinct_nontrivial={len(nontrivial)} violations={len(new)} known={sum(known_seen.values())} "
          f"wall={wall:.1f}s")
    brief = {k: v for k, v in sorted(counters.items()) if not k.startswith("viol:")}
    out("counters:", json.dumps(brief)[:3000])
    if new:
        for mech, vs in seen_mech.items():
            v = vs[0]
            out(f"  mechanism={mech} monitor={v['monitor']} n={len(vs)} observed={json.dumps(v['observed'])[:400]} "
                  f"expected={json.dumps(v['expected'])[:300]}")
        for ln in lines:
            out(ln)
        return 1
    if inconclusive:
        for r in inconclusive:
            out(f"INCONCLUSIVE property={pid} reason={r}")
        return 2
    return 0


def replay(pid, path):
    data = json.load(open(path))
    v = data["violation"]
    work = os.path.join(HOME, ".work", f"{pid}-replay-{os.getpid()}")
    os.makedirs(work, exist_ok=True)
    outp = os.path.join(work, "replay.json")
    prop = load_prop(pid)
    if getattr(prop, "NATIVE", False):
        from . import native
        native.prepare(sanitize=False)
    run_shard(pid, data.get("tier", "quick"), data.get("seed", 0), 0, 1, outp, only_case=v["case"])
    r = json.load(open(outp))
    shutil.rmtree(work, ignore_errors=True)
    same = [x for x in r["violations"] if x["mechanism"] == v["mechanism"]]
    out(json.dumps({"case": v["case"], "reproduced": len(same), "all_violations": len(r["violations"]),
                      "errors": r["errors"][:2]}, indent=1)[:3000])
    if same:
        out(json.dumps(same[0], indent=1)[:3000])
        out(f"VIOLATION property={pid} replay={path}")
        return 1
    return 0


def main(argv):
    if not argv:
        out(__doc__)
        return 64
    if argv[0] == "setup":
        from . import native
        m = native.prepare(sanitize=True)
        out(json.dumps(m, indent=1))
        return 0 if not m.get("error") else 1
    if argv[0] == "shard":
        _, pid, tier, seed, i, n, outp = argv
        run_shard(pid, tier, int(seed), int(i), int(n), outp)
        return 0
    pid = argv[0].upper()
    if len(argv) >= 3 and argv[1] == "--replay":
        return replay(pid, argv[2])
    tier = argv[1] if len(argv) > 1 else os.environ.get("VERIF_TIER", "quick")
    if tier not in ("quick", "thorough"):
        tier = "quick"
    seed = int(os.environ.get("VERIF_SEED", "0") or 0)
    return run_check(pid, tier, seed)


if __name__ == "__main__":
    sys.exit(main(sys.argv[1:]))
