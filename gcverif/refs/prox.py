"""Reference proximal operators, written from the optimisation problems in the property statement.

group lasso:   argmin_z 0.5||z-w||^2 + alpha ||z||_2                       (closed form)
HIER-PROX:     argmin_{beta,theta} 0.5||beta-v||^2 + 0.5||theta-u||^2 + alpha||beta||_2   s.t. |theta_j| <= M ||beta||_2
               reduced to the strictly convex 1-D problem in t = ||beta|| and solved by bisection on f'(t).
"""
import math

import numpy as np


def group_lasso(w, alpha):
    w = np.asarray(w, dtype=float).ravel()
    nrm = math.sqrt(sum(float(x) * float(x) for x in w))
    if nrm <= alpha:
        return np.zeros_like(w), nrm
    return (1.0 - alpha / nrm) * w, nrm


def hier_objective(beta, theta, v, u, alpha):
    return (0.5 * float(np.sum((beta - v) ** 2)) + 0.5 * float(np.sum((theta - u) ** 2))
            + alpha * float(np.sqrt(np.sum(beta ** 2))))


def hier_prox(v, u, alpha, M):
    """Returns (beta, theta, t_star, f_star) for ||v|| > 0."""
    v = np.asarray(v, dtype=float).ravel()
    u = np.asarray(u, dtype=float).ravel()
    nv = float(np.sqrt(np.sum(v ** 2)))
    au = np.abs(u)

    def fprime(t):
        return t - nv + alpha - M * float(np.sum(np.maximum(au - M * t, 0.0)))

    if fprime(0.0) >= 0:
        t = 0.0
    else:
        lo, hi = 0.0, nv + M * float(np.sum(au)) + 1.0
        while fprime(hi) < 0:
            hi *= 2
        for _ in range(200):
            mid = 0.5 * (lo + hi)
            if fprime(mid) < 0:
                lo = mid
            else:
                hi = mid
            if hi - lo <= 1e-16 * max(1.0, hi):
                break
        t = 0.5 * (lo + hi)
    beta = t * v / nv
    theta = np.sign(u) * np.minimum(au, M * t)
    return beta, theta, t, hier_objective(beta, theta, v, u, alpha)
