"""Naive reference implementation of the GEMINI scores, written from the documentation.

GEMINI = E_{y~p(y)}[ D(p(x|y) || p(x)) ]            (one-vs-all)
       = E_{ya,yb~p(y)}[ D(p(x|ya) || p(x|yb)) ]    (one-vs-one)
with the empirical distributions p(x_i|y=k) = P[i,k] / sum_i P[i,k], p(x_i) = 1/N, p(y=k) = mean_i P[i,k].
Explicit loops over clusters, explicit probability vectors; shares no algebra with gemclus.
"""
import math

import numpy as np
from scipy.optimize import linprog

DISTANCES = ("kl", "tv", "hellinger", "chi2", "mmd", "wasserstein")

# documented meaning of the 13 registry names
REGISTRY = {
    "mmd_ova": ("mmd", False), "mmd_ovo": ("mmd", True),
    "wasserstein_ova": ("wasserstein", False), "wasserstein_ovo": ("wasserstein", True),
    "kl_ova": ("kl", False), "kl_ovo": ("kl", True), "mi": ("kl", False),
    "tv_ova": ("tv", False), "tv_ovo": ("tv", True),
    "hellinger_ova": ("hellinger", False), "hellinger_ovo": ("hellinger", True),
    "chi2_ova": ("chi2", False), "chi2_ovo": ("chi2", True),
}

CLASS_DISTANCE = {"KLGEMINI": "kl", "MI": "kl", "TVGEMINI": "tv", "HellingerGEMINI": "hellinger",
                  "ChiSquareGEMINI": "chi2", "MMDGEMINI": "mmd", "WassersteinGEMINI": "wasserstein"}


def _kl(q, p):
    s = 0.0
    for qi, pi in zip(q, p):
        if qi > 0:
            s += qi * math.log(qi / pi)
    return s


def _tv(q, p):
    return 0.5 * sum(abs(qi - pi) for qi, pi in zip(q, p))


def _hellinger2(q, p):
    return 1.0 - sum(math.sqrt(qi * pi) for qi, pi in zip(q, p))


def _pearson(q, p):
    return sum((qi - pi) ** 2 / pi for qi, pi in zip(q, p))


def _mmd(q, p, A):
    d = np.asarray(q, dtype=float) - np.asarray(p, dtype=float)
    v = float(d @ A @ d)
    return math.sqrt(max(v, 0.0))


def wasserstein_lp(a, b, C):
    """Optimal value of the transport LP  min <T,C>  s.t. T 1 = a, T^T 1 = b, T >= 0  (HiGHS)."""
    a = np.asarray(a, dtype=float)
    b = np.asarray(b, dtype=float)
    n, m = len(a), len(b)
    if n == 1 and m == 1:
        return float(C[0][0] * a[0])
    A_eq = np.zeros((n + m, n * m))
    for i in range(n):
        A_eq[i, i * m:(i + 1) * m] = 1.0
    for j in range(m):
        A_eq[n + j, j::m] = 1.0
    # make the two marginals sum to exactly the same mass, as any exact solver needs
    b = b * (a.sum() / b.sum())
    # HiGHS works with absolute feasibility / optimality tolerances (1e-7): solve the problem for the cost matrix
    # normalised to unit magnitude and scale the optimum back, so that tiny or huge costs are solved as accurately
    C = np.asarray(C, dtype=float)
    mag = float(np.max(np.abs(C)))
    if mag == 0.0:
        return 0.0
    res = linprog((C / mag).reshape(-1), A_eq=A_eq[:-1], b_eq=np.concatenate([a, b])[:-1],
                  bounds=(0, None), method="highs")
    if res.status != 0:
        raise RuntimeError("LP reference failed: " + res.message)
    return float(res.fun) * mag


def distance(name, q, p, A):
    if name == "kl":
        return _kl(q, p)
    if name == "tv":
        return _tv(q, p)
    if name == "hellinger":
        return _hellinger2(q, p)
    if name == "chi2":
        return _pearson(q, p)
    if name == "mmd":
        return _mmd(q, p, A)
    if name == "wasserstein":
        return wasserstein_lp(q, p, A)
    raise KeyError(name)


def ref_gemini(name, ovo, P, A=None):
    """Documented value of the GEMINI `name` (one of DISTANCES) for predictions P and affinity A."""
    P = np.asarray(P, dtype=float)
    N, K = P.shape
    pi = [float(sum(P[i, k] for i in range(N)) / N) for k in range(K)]
    cond = []
    for k in range(K):
        tot = float(sum(P[i, k] for i in range(N)))
        cond.append([float(P[i, k]) / tot for i in range(N)])
    data = [1.0 / N] * N
    total = 0.0
    if not ovo:
        for k in range(K):
            total += pi[k] * distance(name, cond[k], data, A)
    else:
        for k in range(K):
            for kk in range(K):
                if k == kk:
                    continue
                total += pi[k] * pi[kk] * distance(name, cond[k], cond[kk], A)
    if name == "chi2":
        # the library's documented convention for the chi-square family: (chi2 + 1) / 2
        return (total + 1.0) / 2.0
    return total
