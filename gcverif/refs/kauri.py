"""Brute-force reference for KAURI: objective from scratch, enumeration of every admissible split, tree router."""
import numpy as np


def objective(labels, kernel):
    """J(labels) = sum_k sigma(C_k x C_k) / |C_k| with explicit loops."""
    labels = np.asarray(labels)
    total = 0.0
    for k in np.unique(labels):
        idx = np.where(labels == k)[0]
        s = 0.0
        for a in idx:
            for b in idx:
                s += kernel[a, b]
        total += s / len(idx)
    return float(total)


def objective_fast(labels, kernel):
    labels = np.asarray(labels)
    total = 0.0
    for k in np.unique(labels):
        idx = np.where(labels == k)[0]
        total += float(kernel[np.ix_(idx, idx)].sum()) / len(idx)
    return total


def state_labels(Y, Z, n_leaves):
    """cluster of each sample and leaf of each sample from the assignment matrices"""
    leaf_of = np.asarray(Z[:n_leaves]).argmax(0)
    cluster_of_leaf = np.asarray(Y[:, :n_leaves]).argmax(0)
    return cluster_of_leaf[leaf_of], leaf_of, cluster_of_leaf


def enumerate_candidates(kernel, X, leaves_to_explore, Y, Z, n_clusters, K_max, n_leaves, min_leaf, feature_subset):
    """Yield (gain, leaf, feature, threshold, left_target, right_target, family, left_idx, right_idx) for every
    admissible candidate, the gain being obtained by actually relabelling and recomputing J."""
    labels, leaf_of, cluster_of_leaf = state_labels(Y, Z, n_leaves)
    J0 = objective_fast(labels, kernel)
    sizes = np.bincount(labels, minlength=max(n_clusters, 1))
    out = []
    for j in leaves_to_explore:
        j = int(j)
        idx = np.where(leaf_of == j)[0]
        k = int(cluster_of_leaf[j])
        n_leaf = len(idx)
        whole = (n_leaf == sizes[k])
        for f in feature_subset:
            f = int(f)
            vals = X[idx, f]
            for thr in np.unique(vals)[:-1]:
                left = idx[vals <= thr]
                right = idx[vals > thr]
                if len(left) < min_leaf or len(right) < min_leaf:
                    continue
                assigns = []
                if n_clusters < K_max:
                    assigns.append((n_clusters, k, "star"))
                    assigns.append((k, n_clusters, "star"))
                if n_clusters < K_max - 1 and not whole:
                    assigns.append((n_clusters, n_clusters + 1, "double_star"))
                if n_clusters >= 2:
                    for kp in range(n_clusters):
                        if kp != k:
                            assigns.append((kp, k, "switch"))
                            assigns.append((k, kp, "switch"))
                if n_clusters >= 3 and not whole:
                    for k1 in range(n_clusters):
                        for k2 in range(n_clusters):
                            if k1 != k and k2 != k and k1 != k2:
                                assigns.append((k1, k2, "reallocation"))
                for (lt, rt, fam) in assigns:
                    new = labels.copy()
                    new[left] = lt
                    new[right] = rt
                    gain = objective_fast(new, kernel) - J0
                    out.append((gain, j, f, float(thr), int(lt), int(rt), fam, left, right))
    return J0, labels, out


def split_gain(kernel, X, Y, Z, n_leaves, leaf, feature, threshold, lt, rt):
    labels, leaf_of, _ = state_labels(Y, Z, n_leaves)
    J0 = objective_fast(labels, kernel)
    idx = np.where(leaf_of == leaf)[0]
    left = idx[X[idx, feature] <= threshold]
    right = idx[X[idx, feature] > threshold]
    new = labels.copy()
    new[left] = lt
    new[right] = rt
    return objective_fast(new, kernel) - J0, len(left), len(right)


def route(tree, x):
    """Iterative router over the fitted arrays (independent of Tree.predict)."""
    node = 0
    while tree.children_left[node] != -1:
        if x[tree.features[node]] <= tree.thresholds[node]:
            node = tree.children_left[node]
        else:
            node = tree.children_right[node]
    return int(tree.target[node]), node
