"""The repository's own test-suite as one more workload under the monitors (DESIGN.md section 3, "Running the
repository's own tests under the monitors").

A property module opts in with ``REPOTESTS = {"thorough": 16}`` (number of parts per tier).  Each part is one case
``{"kind": "repotests", "part": i, "of": n}``: the shard process - in which the property's class-level monitors are
already attached by ``setup`` - runs pytest in-process on ``<repo>/gemclus/tests`` and keeps every n-th collected item.
Whether a test passes is NOT judged here (that is the baseline's business, and ~20 tests fail for reasons unrelated to the
library); the tests are only a source of calls with another input distribution (iris, blobs of 100+ samples, the
estimator-check inputs of scikit-learn, deliberately invalid inputs).  Monitors whose oracle presupposes a valid
configuration therefore must not be attached in this mode; the property modules that opt in only carry contracts that
are guarded by the property's own scope conditions (interior predictions, accepted inputs, calls that returned).
"""
import os


def cases(prop, tier):
    n = getattr(prop, "REPOTESTS", {}).get(tier, 0)
    if os.environ.get("GCVERIF_REPOTESTS_FORCE") and hasattr(prop, "REPOTESTS"):
        n = int(os.environ["GCVERIF_REPOTESTS_FORCE"])      # experiments only
    return [{"kind": "repotests", "part": i, "of": n} for i in range(n)]


def all_cases(prop, tier, seed):
    return list(prop.cases(tier, seed)) + cases(prop, tier)


class _Selector:
    def __init__(self, part, of, ctx):
        self.part, self.of, self.ctx = part, of, ctx

    def pytest_collection_modifyitems(self, config, items):
        keep = [it for j, it in enumerate(items) if j % self.of == self.part]
        self.ctx.count("repotests_items_collected", len(items))
        items[:] = keep

    def pytest_runtest_logreport(self, report):
        if report.when == "call":
            self.ctx.count("repotests_items_run")
            self.ctx.count("repotests_items_" + report.outcome)


def run(case, ctx, state):
    import pytest
    repo = os.environ.get("GCVERIF_REPO", "/repo")
    if state is not None and hasattr(state, "mode"):
        state.mode = "repotests"
    ctx.case = dict(case)
    cwd = os.getcwd()
    os.chdir(repo)
    try:
        pytest.main(["-q", "-p", "no:cacheprovider", "-o", "addopts=", "--no-header",
                     "--tb=no", "-W", "ignore", os.path.join(repo, "gemclus", "tests")],
                    plugins=[_Selector(int(case["part"]), int(case["of"]), ctx)])
    finally:
        os.chdir(cwd)
    ctx.count("repotests_parts")
