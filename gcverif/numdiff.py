"""Numeric-derivative oracle (DESIGN.md section 3).

Central differences at h and h/2 with Richardson extrapolation, a round-off noise floor and a smoothness test that
rejects coordinates lying on (or next to) a kink of a piecewise-smooth function instead of reporting them.
"""
import numpy as np

EPS = np.finfo(float).eps


def derivative(f, x0=0.0, steps=(1e-4, 1e-6), f_abs_err=0.0):
    """Derivative of the scalar function t -> f(t) at t = 0 (x0 is only used to scale the step).

    Returns (R, err, noise) for a smooth coordinate or None when the function looks non-smooth around 0 at both
    step sizes.  R is the Richardson value, err = |R - D_{h/2}| an estimate of the truncation error and noise the
    round-off floor of a difference quotient with that step."""
    f0 = f(0.0)
    if not np.isfinite(f0):
        return None
    for h0 in steps:
        h = h0 * max(1.0, abs(x0))
        fp, fm, fp2, fm2 = f(h), f(-h), f(h / 2), f(-h / 2)
        vals = np.array([f0, fp, fm, fp2, fm2], dtype=float)
        if not np.all(np.isfinite(vals)):
            continue
        Dh = (fp - fm) / (2 * h)
        Dh2 = (fp2 - fm2) / h
        R = (4 * Dh2 - Dh) / 3
        noise = (100 * EPS * np.max(np.abs(vals)) + f_abs_err) / (h / 2)
        scale = max(abs(R), abs(Dh), 1e-300)
        if abs(Dh - Dh2) > 1e-3 * scale + noise:
            continue
        # one-sided slopes: on a kink they differ by a constant that does not shrink with h;
        # with a finite second derivative the gap is ~ h*f'' and halves when h halves.
        gap_h = abs((fp - f0) / h - (f0 - fm) / h)
        gap_h2 = abs((fp2 - f0) / (h / 2) - (f0 - fm2) / (h / 2))
        small = 1e-6 * scale + 4 * noise
        if gap_h2 > small and gap_h2 > 0.75 * gap_h + 4 * noise:
            continue
        return float(R), float(abs(R - Dh2)), float(noise)
    return None


def tolerance(R, err, noise, scale):
    return 1e-6 * scale + 10 * err + noise + 1e-300


def ill_conditioned(noise, scale):
    """The round-off floor of the difference quotient is not small against the derivative: nothing can be decided."""
    return noise > 1e-3 * max(scale, 1e-300)
