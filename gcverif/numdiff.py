"""Numeric-derivative oracle (DESIGN.md section 3).

Central differences at h and h/2 with Richardson extrapolation, a round-off noise floor and a smoothness test that
rejects coordinates lying on (or next to) a kink of a piecewise-smooth function instead of reporting them.
"""
import numpy as np

EPS = np.finfo(float).eps


def _one_step(f, f0, h, f_abs_err):
    fp, fm, fp2, fm2 = f(h), f(-h), f(h / 2), f(-h / 2)
    vals = np.array([f0, fp, fm, fp2, fm2], dtype=float)
    if not np.all(np.isfinite(vals)):
        return None
    Dh = (fp - fm) / (2 * h)
    Dh2 = (fp2 - fm2) / h
    R = (4 * Dh2 - Dh) / 3
    noise = (100 * EPS * np.max(np.abs(vals)) + f_abs_err) / (h / 2)
    scale = max(abs(R), abs(Dh), 1e-300)
    if abs(Dh - Dh2) > 1e-3 * scale + noise:
        return None
    # one-sided slopes: on a kink they differ by a constant that does not shrink with h;
    # with a finite second derivative the gap is ~ h*f'' and halves when h halves.
    gap_h = abs((fp - f0) / h - (f0 - fm) / h)
    gap_h2 = abs((fp2 - f0) / (h / 2) - (f0 - fm2) / (h / 2))
    small = 1e-6 * scale + 4 * noise
    if gap_h2 > small and gap_h2 > 0.75 * gap_h + 4 * noise:
        return None
    return float(R), float(abs(R - Dh2)), float(noise)


def derivative(f, x0=0.0, steps=(1e-4, 1e-6), f_abs_err=0.0, strict=False):
    """Derivative of the scalar function t -> f(t) at t = 0 (x0 is only used to scale the step).

    Returns (R, err, noise) for a smooth coordinate or None when the function looks non-smooth around 0.
    R is the Richardson value, err = |R - D_{h/2}| an estimate of the truncation error and noise the round-off floor
    of a difference quotient with that step.  When the first step size leaves a visible truncation error (the two
    difference quotients disagree by more than 1e-7 relative) the second, smaller step is evaluated as well: the two
    Richardson values must agree within their own error bars - a kink lying between the two step sizes makes them
    disagree, and the coordinate is then skipped - and the one with the smaller error bar is returned."""
    f0 = f(0.0)
    if not np.isfinite(f0):
        return None
    h1 = steps[0] * max(1.0, abs(x0))
    a = _one_step(f, f0, h1, f_abs_err)
    if a is not None and a[1] <= 1e-7 * max(abs(a[0]), 1e-300) + a[2] and not strict:
        return a
    h2 = steps[1] * max(1.0, abs(x0))
    b = _one_step(f, f0, h2, f_abs_err)
    if strict and (a is None or b is None):
        return None          # strict mode (used to arbitrate): both scales must be smooth and agree
    if a is None:
        return b
    if b is None:
        # the smaller step is dominated by round-off or sees a kink: keep the first only if it was clean enough
        return a if a[1] <= 1e-5 * max(abs(a[0]), 1e-300) + a[2] else None
    bar_a, bar_b = 10 * a[1] + a[2], 10 * b[1] + b[2]
    if abs(a[0] - b[0]) > bar_a + bar_b + 1e-6 * max(abs(a[0]), abs(b[0])):
        return None          # the two scales disagree: a kink within the larger step
    return a if bar_a <= bar_b else b


def tolerance(R, err, noise, scale):
    return 1e-6 * scale + 10 * err + noise + 1e-300


def ill_conditioned(noise, scale):
    """The round-off floor of the difference quotient is not small against the derivative: nothing can be decided."""
    return noise > 1e-3 * max(scale, 1e-300)


def confirmed_mismatch(f, x0, analytic, scale, f_abs_err=0.0, extra_tol=0.0):
    """Second opinion before a mismatch is reported: derivative estimates at THREE scales (1e-4, 1e-5, 1e-6 relative)
    must each look smooth and agree pairwise within their error bars (a small kink between two scales - e.g. an
    optimal-transport basis change whose slope jump is far below the smoothness threshold - makes them disagree), and the
    analytic value must differ from the finest decidable estimate by more than its tolerance."""
    f0 = f(0.0)
    if not np.isfinite(f0):
        return False
    est = []
    for h0 in (1e-4, 1e-5, 1e-6):
        r = _one_step(f, f0, h0 * max(1.0, abs(x0)), f_abs_err)
        if r is None:
            return False
        est.append(r)
    for a in est:
        for b in est:
            if abs(a[0] - b[0]) > 10 * (a[1] + b[1]) + a[2] + b[2] + 1e-7 * max(abs(a[0]), abs(b[0]), scale):
                return False
    fine = min(est, key=lambda r: 10 * r[1] + r[2])
    if ill_conditioned(fine[2], max(scale, abs(fine[0]))):
        return False
    # the analytic value must be out of reach of EVERY scale, not only of the one with the smallest error bar: on an
    # objective that is piecewise linear with closely spaced kinks (optimal transport with many small clusters) the
    # truncation error of a central difference is O(h), the Richardson error bars - built for O(h^2) - are too
    # optimistic, and the coarse estimate with its small round-off looks like the most precise one while the fine ones
    # converge to the analytic value (met in the thorough tier of C03, seed 31: see DESIGN.md section 8)
    return all(abs(analytic - r[0]) > tolerance(r[0], r[1], r[2], max(scale, abs(r[0]))) + extra_tol for r in est)
