"""Seeded workload generators: data sets, affinities, prediction matrices, GEMINI and estimator descriptors.

Everything is described by small JSON-able descriptors so that a case can be replayed from its descriptor alone.
"""
import hashlib
import json

import numpy as np

GEMINI_NAMES = ["mmd_ova", "mmd_ovo", "wasserstein_ova", "wasserstein_ovo", "kl_ova", "kl_ovo", "mi", "tv_ova",
                "tv_ovo", "hellinger_ova", "hellinger_ovo", "chi2_ova", "chi2_ovo"]
FDIV_CLASSES = ["KLGEMINI", "TVGEMINI", "HellingerGEMINI", "ChiSquareGEMINI"]
KERNELS = ["linear", "poly", "polynomial", "rbf", "laplacian", "sigmoid", "cosine", "chi2", "additive_chi2"]
METRICS = ["euclidean", "l2", "l1", "manhattan", "cityblock", "cosine"]


def rng_for(*parts):
    h = hashlib.sha256(json.dumps(parts, sort_keys=True, default=str).encode()).digest()
    return np.random.default_rng(int.from_bytes(h[:8], "little"))


def subseed(rng):
    return int(rng.integers(0, 2 ** 31 - 1))


# ---------------------------------------------------------------------------
# data
# ---------------------------------------------------------------------------
DATA_KINDS = ["blobs", "ties", "constcol", "dupcol", "duprows", "small", "large", "nonneg"]


def make_data(rng, n, d, kind="blobs", centers=3):
    """Finite (n, d) float data of the given kind."""
    c = rng.normal(scale=3.0, size=(max(1, centers), d))
    lab = rng.integers(0, max(1, centers), size=n)
    X = c[lab] + rng.normal(size=(n, d))
    if kind == "ties":
        X = np.round(X, 0)
    elif kind == "constcol":
        X[:, rng.integers(0, d)] = 1.5
    elif kind == "dupcol" and d >= 2:
        X[:, d - 1] = X[:, 0]
    elif kind == "duprows" and n >= 2:
        for _ in range(max(1, n // 3)):
            i, j = rng.integers(0, n, size=2)
            X[i] = X[j]
    elif kind == "small":
        X = X * 1e-3
    elif kind == "large":
        X = X * 30.0
    elif kind == "nonneg":
        X = np.abs(X)
    return np.ascontiguousarray(X, dtype=np.float64)


def with_twins(rng, X, noise=0.03):
    """Redundant features: up to two columns become near copies of another column (x_j + a little noise).  Along a
    regularisation path such twins flicker in and out of the selection - the feature count is no longer monotone."""
    X = np.array(X, dtype=float, copy=True)
    n, d = X.shape
    if d < 2:
        return X
    for _ in range(int(rng.integers(1, 3))):
        j, k = (int(v) for v in rng.choice(d, size=2, replace=False))
        X[:, k] = X[:, j] + rng.normal(scale=noise * (float(np.std(X[:, j])) or 1.0), size=n)
    return X


def distinct_rows(rng, n, d, scale=1.0):
    """Data whose rows are pairwise distinct in every column (unique-id coding: a row identifies its sample)."""
    X = rng.normal(scale=scale, size=(n, d))
    # make the first column a strictly increasing function of a random permutation -> ids recoverable
    return np.ascontiguousarray(X)


def coded_affinity(n, ordered=False):
    """Matrix whose entry (i,j) identifies the pair: symmetric A[i,j] = 1 + min*n + max (unordered pair), or with
    ordered=True A[i,j] = 1 + i*n + j (ordered pair: a transposed block is then visible too)."""
    i, j = np.meshgrid(np.arange(n), np.arange(n), indexing="ij")
    if ordered:
        return (1.0 + i * n + j).astype(np.float64)
    return (1.0 + np.minimum(i, j) * n + np.maximum(i, j)).astype(np.float64)


def kernel_params(rng, name):
    # boundary values on purpose: a parameter that is exactly 0 / 0.0 (homogeneous polynomial, sigmoid without offset)
    # is as legal as any other and must be forwarded as given
    zero = [0, 0.0][int(rng.integers(0, 2))]
    if name in ("poly", "polynomial"):
        full = {"degree": int(rng.integers(1, 4)), "gamma": float(rng.uniform(0.05, 0.6)),
                "coef0": zero if rng.random() < 0.3 else float(rng.uniform(0, 2))}
    elif name in ("rbf", "laplacian", "chi2"):
        full = {"gamma": float(rng.uniform(0.02, 0.8))}
    elif name == "sigmoid":
        full = {"gamma": float(rng.uniform(0.01, 0.2)), "coef0": zero if rng.random() < 0.3 else float(rng.uniform(-1, 1))}
    else:
        return {}
    # partial dictionaries are as legal as complete ones: what is left out takes scikit-learn's default, resolved for the
    # data at hand at every call (gamma = 1 / n_features)
    return {k: v for k, v in full.items() if rng.random() >= 0.3}


def metric_params(rng, name):
    if name in ("euclidean", "l2") and rng.random() < 0.4:
        return {"squared": bool(rng.random() < 0.5)}
    return {}


# callables usable as kernel= / base_kernel= (module level so that they survive clone / repr)
def callable_kernel_rbf(X, Y=None):
    from sklearn.metrics import pairwise_kernels
    return pairwise_kernels(X, Y, metric="rbf", gamma=0.37)


def callable_kernel_lin2(X, Y=None):
    Y = X if Y is None else Y
    return 0.5 * (np.asarray(X) @ np.asarray(Y).T) + 1.0


def callable_kernel_centred(X, Y=None):
    """Centred linear Gram matrix: its entries depend on the whole sample set it is computed on (like a median-heuristic
    bandwidth would) - the block of the full matrix is NOT the matrix of the block."""
    X = np.asarray(X, dtype=float)
    Y = X if Y is None else np.asarray(Y, dtype=float)
    mu = Y.mean(0, keepdims=True)
    return (X - mu) @ (Y - mu).T + 0.1


CALLABLES = {"cb_rbf": callable_kernel_rbf, "cb_lin2": callable_kernel_lin2, "cb_centred": callable_kernel_centred}


def sym_matrix(rng, n, kind="psd"):
    B = rng.normal(size=(n, max(2, n // 2 + 1)))
    if kind == "psd":
        return B @ B.T + 0.1 * np.eye(n)
    if kind == "indefinite":
        S = rng.normal(size=(n, n))
        return (S + S.T) / 2
    if kind == "dist":
        Z = rng.normal(size=(n, 2))
        D = np.sqrt(((Z[:, None, :] - Z[None, :, :]) ** 2).sum(-1))
        return D
    if kind == "dist_nonmetric":
        S = np.abs(rng.normal(size=(n, n)))
        S = (S + S.T) / 2
        np.fill_diagonal(S, 0.0)
        if rng.random() < 0.5:
            # a user cost such as 1 - similarity need not vanish on the diagonal: it must be used as given
            np.fill_diagonal(S, np.abs(rng.normal(size=n)) * 0.5)
        return S
    raise KeyError(kind)


# ---------------------------------------------------------------------------
# predictions
# ---------------------------------------------------------------------------
def softmax(L):
    L = L - L.max(1, keepdims=True)
    E = np.exp(L)
    return E / E.sum(1, keepdims=True)


def predictions(rng, n, K, scale):
    L = rng.normal(scale=scale, size=(n, K))
    return softmax(L), L


# ---------------------------------------------------------------------------
# GEMINI descriptors
# ---------------------------------------------------------------------------
def gemini_from_desc(desc):
    """desc: registry name | None | {"cls": ..., "ovo": bool, "kernel"/"metric": str|{"callable": name},
    "params": dict|None, "epsilon": float?}"""
    import gemclus.gemini as gg
    from gemclus.gemini._utils import _str_to_gemini
    if desc is None or isinstance(desc, str):
        return _str_to_gemini(desc if desc is not None else "mmd_ova")
    cls = getattr(gg, desc["cls"])
    kw = {}
    if desc["cls"] != "MI":
        kw["ovo"] = bool(desc.get("ovo", False))
    if "epsilon" in desc:
        kw["epsilon"] = desc["epsilon"]
    if desc["cls"] == "MMDGEMINI":
        k = desc.get("kernel", "linear")
        kw["kernel"] = CALLABLES[k["callable"]] if isinstance(k, dict) else k
        kw["kernel_params"] = desc.get("params")
    if desc["cls"] == "WassersteinGEMINI":
        kw["metric"] = desc.get("metric", "euclidean")
        kw["metric_params"] = desc.get("params")
    return cls(**kw)


def random_gemini_desc(rng, allow_precomputed=True, nonneg=False, allow_callable=True, wasserstein=True):
    """A random GEMINI instance descriptor covering all classes, both modes, kernels/metrics with parameters; one in five
    carries a non-default clipping bound epsilon (any float in (0, 1) is accepted; 1e-10 .. 0.05 are drawn)."""
    desc = _random_gemini_desc(rng, allow_precomputed, nonneg, allow_callable, wasserstein)
    if rng.random() < 0.2:
        desc["epsilon"] = float(10 ** rng.uniform(-10, -1.3))
    return desc


def _random_gemini_desc(rng, allow_precomputed=True, nonneg=False, allow_callable=True, wasserstein=True):
    r = rng.random()
    ovo = bool(rng.random() < 0.5)
    if r < 0.34:
        cls = FDIV_CLASSES[int(rng.integers(0, 4))]
        if rng.random() < 0.15:
            return {"cls": "MI"}
        return {"cls": cls, "ovo": ovo}
    if r < 0.67 or not wasserstein:
        names = [k for k in KERNELS if nonneg or k not in ("chi2", "additive_chi2")]
        c = rng.random()
        if allow_precomputed and c < 0.15:
            return {"cls": "MMDGEMINI", "ovo": ovo, "kernel": "precomputed", "params": None}
        if allow_callable and c < 0.25:
            return {"cls": "MMDGEMINI", "ovo": ovo, "kernel": {"callable": ["cb_rbf", "cb_lin2"][int(rng.integers(0, 2))]},
                    "params": None}
        k = names[int(rng.integers(0, len(names)))]
        p = kernel_params(rng, k)
        return {"cls": "MMDGEMINI", "ovo": ovo, "kernel": k, "params": (p if (p or rng.random() < 0.5) else None)}
    if allow_precomputed and rng.random() < 0.15:
        return {"cls": "WassersteinGEMINI", "ovo": ovo, "metric": "precomputed", "params": None}
    m = METRICS[int(rng.integers(0, len(METRICS)))]
    p = metric_params(rng, m)
    return {"cls": "WassersteinGEMINI", "ovo": ovo, "metric": m, "params": (p if p else None)}


def affinity_for(gem, desc, X, rng):
    """The affinity a GEMINI built from `desc` needs for data X: computed by the object, or a random symmetric
    matrix when precomputed."""
    n = len(X)
    if isinstance(desc, dict):
        if desc["cls"] == "MMDGEMINI" and desc.get("kernel") == "precomputed":
            return sym_matrix(rng, n, ["psd", "indefinite"][int(rng.integers(0, 2))])
        if desc["cls"] == "WassersteinGEMINI" and desc.get("metric") == "precomputed":
            return sym_matrix(rng, n, ["dist", "dist_nonmetric"][int(rng.integers(0, 2))])
    return gem.compute_affinity(X)


# ---------------------------------------------------------------------------
# estimators
# ---------------------------------------------------------------------------
ESTIMATORS = {
    "LinearModel": ("gemclus.linear", "LinearModel"), "LinearMMD": ("gemclus.linear", "LinearMMD"),
    "LinearWasserstein": ("gemclus.linear", "LinearWasserstein"), "RIM": ("gemclus.linear", "RIM"),
    "KernelRIM": ("gemclus.linear", "KernelRIM"),
    "MLPModel": ("gemclus.mlp", "MLPModel"), "MLPMMD": ("gemclus.mlp", "MLPMMD"),
    "MLPWasserstein": ("gemclus.mlp", "MLPWasserstein"),
    "SparseLinearModel": ("gemclus.sparse", "SparseLinearModel"), "SparseLinearMMD": ("gemclus.sparse", "SparseLinearMMD"),
    "SparseLinearMI": ("gemclus.sparse", "SparseLinearMI"),
    "SparseMLPModel": ("gemclus.sparse", "SparseMLPModel"), "SparseMLPMMD": ("gemclus.sparse", "SparseMLPMMD"),
    "CategoricalModel": ("gemclus.nonparametric", "CategoricalModel"),
    "CategoricalMMD": ("gemclus.nonparametric", "CategoricalMMD"),
    "CategoricalWasserstein": ("gemclus.nonparametric", "CategoricalWasserstein"),
    "Douglas": ("gemclus.tree", "Douglas"), "Kauri": ("gemclus.tree", "Kauri"),
}
GRADIENT_ESTIMATORS = [k for k in ESTIMATORS if k != "Kauri"]
GENERIC = ["LinearModel", "MLPModel", "SparseLinearModel", "SparseMLPModel", "CategoricalModel", "Douglas"]
MMD_VARIANTS = ["LinearMMD", "MLPMMD", "SparseLinearMMD", "SparseMLPMMD", "CategoricalMMD"]
WASS_VARIANTS = ["LinearWasserstein", "MLPWasserstein", "CategoricalWasserstein"]
SPARSE = ["SparseLinearModel", "SparseLinearMMD", "SparseLinearMI", "SparseMLPModel", "SparseMLPMMD"]
NONPARAMETRIC = ["CategoricalModel", "CategoricalMMD", "CategoricalWasserstein"]
MLP_LIKE = ["MLPModel", "MLPMMD", "MLPWasserstein", "SparseMLPModel", "SparseMLPMMD"]


def get_class(name):
    import importlib
    mod, cls = ESTIMATORS[name]
    return getattr(importlib.import_module(mod), cls)


def build_estimator(name, params):
    """params is JSON-able; 'gemini' may be a descriptor, 'kernel'/'base_kernel' may be {"callable": name},
    'feature_mask' a list of bools.  The estimator receives its own deep copy of every mutable value (parameter
    dictionaries, group lists): two estimators built from one descriptor share nothing, and the descriptor stays as
    written whatever an estimator does to its hyperparameters."""
    import copy
    p = copy.deepcopy(dict(params))
    if "gemini" in p and isinstance(p["gemini"], dict):
        p["gemini"] = gemini_from_desc(p["gemini"])
    for k in ("kernel", "base_kernel"):
        if k in p and isinstance(p[k], dict):
            p[k] = CALLABLES[p[k]["callable"]]
    if p.get("feature_mask") is not None:
        p["feature_mask"] = np.asarray(p["feature_mask"], dtype=bool)
    # one descriptor in six (a deterministic function of the descriptor, so a replay rebuilds the same object) reaches the
    # estimator with its integer hyperparameters as NumPy integers - what np.arange, ParameterGrid or a CSV / JSON loader
    # hand over; they are legal Integrals and equal to the Python values everywhere
    from .attach import sig_hash
    h = int(sig_hash("npint", name, params), 16)
    if h % 6 == 0:
        types = [np.int64, np.int32, np.intp]
        for j, k in enumerate(sorted(p)):
            if isinstance(p[k], int) and not isinstance(p[k], bool) and abs(p[k]) < 2 ** 31:
                p[k] = types[(h // 6 + j) % 3](p[k])
        STATS["estimators_built_with_numpy_integers"] = STATS.get("estimators_built_with_numpy_integers", 0) + 1
    return get_class(name)(**p)


STATS = {}      # counters of the generators themselves (added to the shard's counters by cli.run_shard)


def random_groups(rng, d):
    """None, a partial list, a full partition, unordered / non-contiguous groups."""
    r = rng.random()
    if r < 0.35 or d < 2:
        return None
    perm = [int(x) for x in rng.permutation(d)]
    if r < 0.7:
        # full partition into random blocks
        groups, i = [], 0
        while i < d:
            s = int(rng.integers(1, min(3, d - i) + 1))
            groups.append(perm[i:i + s])
            i += s
        return groups
    # partial list
    m = int(rng.integers(1, d))
    sub = perm[:m]
    groups, i = [], 0
    while i < m:
        s = int(rng.integers(1, min(3, m - i) + 1))
        groups.append(sub[i:i + s])
        i += s
    return groups


def random_config(rng, name, n, d, K=None, max_iter=None, nonneg=False, allow_precomputed=True,
                  allow_callable=True, gemini=None):
    """Random valid configuration (documented domains) for estimator `name` on (n, d) data.
    Returns (params, needs_precomputed: None|'kernel'|'metric').  One configuration in eight runs with verbose=True:
    messages are a hyperparameter like any other and must not change what is computed (shard output goes to a log)."""
    p, pre = _random_config(rng, name, n, d, K, max_iter, nonneg, allow_precomputed, allow_callable, gemini)
    if rng.random() < 0.125:
        p["verbose"] = True
    return p, pre


def _random_config(rng, name, n, d, K=None, max_iter=None, nonneg=False, allow_precomputed=True,
                   allow_callable=True, gemini=None):
    K = int(K if K is not None else rng.integers(2, min(4, n) + 1))
    p = {"random_state": subseed(rng) % 100000}
    pre = None
    if name == "Kauri":
        p["max_clusters"] = int(rng.integers(1, 7))
        if rng.random() < 0.5:
            p["max_depth"] = int(rng.integers(1, 5))
        leaf = int(rng.integers(1, 4))
        p["min_samples_leaf"] = leaf
        p["min_samples_split"] = int(max(2, 2 * leaf + rng.integers(0, 3)))
        if rng.random() < 0.4:
            p["max_features"] = int(rng.integers(1, d + 1))
        if rng.random() < 0.4:
            p["max_leaves"] = int(rng.integers(2, 8))
        ks = [k for k in KERNELS if nonneg or k not in ("chi2", "additive_chi2")]
        if allow_precomputed and rng.random() < 0.15:
            p["kernel"] = "precomputed"
            pre = "kernel"
        else:
            p["kernel"] = ks[int(rng.integers(0, len(ks)))]
        return p, pre
    p["n_clusters"] = K
    p["max_iter"] = int(max_iter if max_iter is not None else rng.integers(1, 6))
    p["learning_rate"] = float(10 ** rng.uniform(-3, -0.5))
    p["solver"] = ["sgd", "adam"][int(rng.integers(0, 2))]
    if name not in NONPARAMETRIC:
        r = rng.random()
        if r < 0.3:
            p["batch_size"] = None
        elif r < 0.45:
            p["batch_size"] = 1
        elif r < 0.55:
            p["batch_size"] = n + 3
        else:
            p["batch_size"] = int(rng.integers(1, n + 1))
    if name in GENERIC:
        if gemini is not None:
            g = gemini
        else:
            r = rng.random()
            if r < 0.5:
                g = GEMINI_NAMES[int(rng.integers(0, 13))]
            elif r < 0.55:
                g = None
            else:
                g = random_gemini_desc(rng, allow_precomputed=allow_precomputed, nonneg=nonneg,
                                       allow_callable=allow_callable)
        p["gemini"] = g
        if isinstance(g, dict) and g.get("kernel") == "precomputed":
            pre = "kernel"
        if isinstance(g, dict) and g.get("metric") == "precomputed":
            pre = "metric"
    if name in MMD_VARIANTS:
        ks = [k for k in KERNELS if nonneg or k not in ("chi2", "additive_chi2")]
        c = rng.random()
        if allow_precomputed and c < 0.15:
            p["kernel"] = "precomputed"
            pre = "kernel"
        elif allow_callable and c < 0.25:
            p["kernel"] = {"callable": ["cb_rbf", "cb_lin2"][int(rng.integers(0, 2))]}
        else:
            p["kernel"] = ks[int(rng.integers(0, len(ks)))]
            kp = kernel_params(rng, p["kernel"])
            if kp or rng.random() < 0.3:
                p["kernel_params"] = kp
        p["ovo"] = bool(rng.random() < 0.5)
    if name in WASS_VARIANTS:
        if allow_precomputed and rng.random() < 0.15:
            p["metric"] = "precomputed"
            pre = "metric"
        else:
            p["metric"] = METRICS[int(rng.integers(0, len(METRICS)))]
            mp = metric_params(rng, p["metric"])
            if mp:
                p["metric_params"] = mp
        p["ovo"] = bool(rng.random() < 0.5)
    if name in ("RIM", "KernelRIM"):
        p["reg"] = float([0.0, 0.01, 0.1, 1.0][int(rng.integers(0, 4))])
    if name == "KernelRIM":
        ks = [k for k in KERNELS if nonneg or k not in ("chi2", "additive_chi2")]
        if allow_callable and rng.random() < 0.15:
            p["base_kernel"] = {"callable": ["cb_rbf", "cb_lin2"][int(rng.integers(0, 2))]}
        else:
            p["base_kernel"] = ks[int(rng.integers(0, len(ks)))]
            kp = kernel_params(rng, p["base_kernel"])
            if kp:
                p["base_kernel_params"] = kp
    if name in MLP_LIKE:
        p["n_hidden_dim"] = int(rng.integers(1, 6))
    if name in SPARSE:
        # (50 and 5000: penalties strong enough to switch every feature off within a few steps - a legal, if useless, model)
        p["alpha"] = float([0.0, 1e-3, 1e-2, 0.1, 1.0, 5.0, 50.0, 5000.0][int(rng.integers(0, 8))])
        p["groups"] = random_groups(rng, d)
        if name != "SparseLinearMI":
            p["dynamic"] = bool(rng.random() < 0.3)
    if name in ("SparseMLPModel", "SparseMLPMMD"):
        p["M"] = float([0.0, 0.1, 1.0, 10.0][int(rng.integers(0, 4))])
    if name == "Douglas":
        p["n_cuts"] = int(rng.integers(1, 4))
        p["temperature"] = float(10 ** rng.uniform(-1.5, 0.5))
        if rng.random() < 0.4 and d >= 2:
            mask = [bool(x) for x in (rng.random(d) < 0.6)]
            if not any(mask):
                mask[int(rng.integers(0, d))] = True
            # keep the number of leaves small
            p["feature_mask"] = mask
    return p, pre


def precomputed_for(rng, pre, n):
    if pre == "kernel":
        return sym_matrix(rng, n, ["psd", "indefinite"][int(rng.integers(0, 2))])
    if pre == "metric":
        return sym_matrix(rng, n, ["dist", "dist_nonmetric"][int(rng.integers(0, 2))])
    return None


# ---------------------------------------------------------------------------
# what objective / affinity an estimator's parameters describe (written from the documentation)
# ---------------------------------------------------------------------------
def expected_objective(name, params):
    """(distance, ovo, affinity-spec) the documentation promises for estimator `name` with `params`.
    affinity-spec: None | {"type": "kernel"|"metric", "name": str|None, "params": dict, "callable": str|None,
    "precomputed": bool}"""
    from .refs.gemini import REGISTRY

    def kern(k, kp):
        if isinstance(k, dict):
            return {"type": "kernel", "name": None, "params": {}, "callable": k["callable"], "precomputed": False}
        return {"type": "kernel", "name": k, "params": dict(kp or {}), "callable": None, "precomputed": k == "precomputed"}

    def metr(m, mp):
        return {"type": "metric", "name": m, "params": dict(mp or {}), "callable": None, "precomputed": m == "precomputed"}

    if name in ("RIM", "KernelRIM", "SparseLinearMI"):
        return "kl", False, None
    if name in MMD_VARIANTS:
        return "mmd", bool(params.get("ovo", False)), kern(params.get("kernel", "linear"), params.get("kernel_params"))
    if name in WASS_VARIANTS:
        return "wasserstein", bool(params.get("ovo", False)), metr(params.get("metric", "euclidean"), params.get("metric_params"))
    g = params.get("gemini", "wasserstein_ova" if name == "Douglas" else "mmd_ova")
    if g is None:
        g = "mmd_ova"
    if isinstance(g, str):
        dist, ovo = REGISTRY[g]
        aff = kern("linear", None) if dist == "mmd" else (metr("euclidean", None) if dist == "wasserstein" else None)
        return dist, ovo, aff
    from .refs.gemini import CLASS_DISTANCE
    dist = CLASS_DISTANCE[g["cls"]]
    ovo = bool(g.get("ovo", False)) if g["cls"] != "MI" else False
    if dist == "mmd":
        return dist, ovo, kern(g.get("kernel", "linear"), g.get("params"))
    if dist == "wasserstein":
        return dist, ovo, metr(g.get("metric", "euclidean"), g.get("params"))
    return dist, ovo, None


def expected_affinity(spec, X, y=None):
    """Evaluate an affinity-spec with scikit-learn directly (never through gemclus)."""
    from sklearn.metrics import pairwise_kernels, pairwise_distances
    if spec is None:
        return None
    if spec["precomputed"]:
        return y
    if spec["callable"]:
        return CALLABLES[spec["callable"]](X)
    if spec["type"] == "kernel":
        return pairwise_kernels(X, metric=spec["name"], **spec["params"])
    return pairwise_distances(X, metric=spec["name"], **spec["params"])
