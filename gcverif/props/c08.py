"""C08 - KAURI gains are real objective increases and the chosen split is the best one.

Contract on gemclus.tree.kauri.find_best_split (module attribute, rebuilt from the working tree's _utils.cpp): the
complete state handed to it is replayed through a brute-force reference that relabels and recomputes the objective
for every admissible candidate.
"""
import numpy as np

from .. import gen
from ..attach import Patcher
from ..refs import kauri as ref

ID = "C08"
NATIVE = True
SANITIZE = True
SAN_TIER = "san"
RULE = ("(1) real Kauri fits: n 4..40 (60 thorough), d 1..5, ties / duplicates, all named kernels incl. sigmoid and "
        "precomputed indefinite matrices, max_clusters 1..9, min_samples_leaf 1..3, feature subsets, depth / leaf limits; "
        "(2) synthetic states handed to the real find_best_split: random assignments of samples to 1..6 leaves and of "
        "leaves to clusters with n_clusters <= K_max, random explorable subsets; (3) thorough: (2) again on the "
        "ASan+UBSan build. Every call is compared with a brute-force enumeration (relabel + recompute J). One evaluation "
        "= one find_best_split call. Non-trivial = >=1 admissible candidate; distinct by state hash.")
ASSUMPTIONS = ["admissible families as documented in the code: star (n_clusters<K_max), double star (n_clusters<K_max-1, "
               "leaf not its whole cluster), switch to any other cluster, reallocation to two distinct other clusters "
               "(n_clusters>=3, leaf not its whole cluster); thresholds at observed values followed by a larger one",
               "the native module is rebuilt from gemclus/tree/_utils.cpp (Cython is not available to translate the .pyx)"]
EVAL_COUNTER = "calls"
REQUIRED = {"quick": {"calls": 1500, "calls_with_candidates": 1200, "chosen:star": 200, "chosen:switch": 100,
                      "chosen:reallocation": 5, "chosen:double_star": 3, "fits_score_checked": 100, "no_split_calls": 50,
                      "synthetic_calls": 2000, "light_calls": 800, "bigfits_over_32_leaves": 12, "bigfits_over_64_leaves": 3, "considered:reallocation": 300, "considered:double_star": 300, "explorable_sets_checked": 200},
            "thorough": {"calls": 30000, "san:calls": 2000, "chosen:reallocation": 100, "chosen:double_star": 50}}
SHARD_TIMEOUT = {"quick": 1500, "thorough": 7000}


def cases(tier, seed):
    if tier == "san":
        return [{"kind": "synthetic", "seed": seed, "i0": i, "i1": i + 25, "tag": "san"} for i in range(0, 4000, 25)]
    nf, ns = (160, 4000) if tier == "quick" else (3000, 60000)
    out = [{"kind": "fit", "seed": seed, "i": i, "tier": tier} for i in range(nf)]
    out += [{"kind": "synthetic", "seed": seed, "i0": i, "i1": min(i + 25, ns)} for i in range(0, ns, 25)]
    # long fits: dozens of clusters, up to ~100 leaves (whatever bookkeeping grows with the tree is exercised past its
    # first allocation); the exhaustive enumeration is out of reach there, see State.check_light
    out += [{"kind": "bigfit", "seed": seed, "i": i, "tier": tier} for i in range(32 if tier == "quick" else 400)]
    return out


def family(lt, rt, k, n_clusters):
    if lt >= n_clusters and rt >= n_clusters:
        return "double_star"
    if lt >= n_clusters or rt >= n_clusters:
        return "star"
    if lt == k or rt == k:
        return "switch"
    return "reallocation"


class State:
    def __init__(self, ctx):
        import gemclus.tree.kauri as kk
        self.ctx = ctx
        self.kk = kk
        self.orig = kk.find_best_split
        self.patcher = Patcher()
        self.patcher.setattr(kk, "find_best_split", self.wrapper)
        self.mode = "fit"
        self.fit_had_double_star = False
        self.fit_calls = 0
        self.cur = None
        orig_fit = vars(kk.Kauri)["fit"]
        st = self

        def fit(self_, X, y=None):
            st.cur = self_
            try:
                return orig_fit(self_, X, y)
            finally:
                st.cur = None
        fit.__wrapped__ = orig_fit
        self.patcher.setattr(kk.Kauri, "fit", fit)

    def close(self):
        self.patcher.restore()

    def wrapper(self, kernel, X, leaves_to_explore, Y, Z, n_clusters, K_max, n_leaves, min_leaf, feature_subset):
        snap = (np.array(kernel, copy=True), np.array(X, copy=True), np.array(leaves_to_explore, copy=True),
                np.array(Y, copy=True), np.array(Z, copy=True), int(n_clusters), int(K_max), int(n_leaves),
                int(min_leaf), np.array(feature_subset, copy=True))
        split = self.orig(kernel, X, leaves_to_explore, Y, Z, n_clusters, K_max, n_leaves, min_leaf, feature_subset)
        self.ctx.guard(self.check, "find_best_split-contract")(snap, split)
        return split

    def check(self, snap, split):
        ctx = self.ctx
        kernel, X, leaves, Y, Z, n_clusters, K_max, n_leaves, min_leaf, feats = snap
        ctx.count("calls")
        self.fit_calls += 1
        if self.mode != "fit":
            ctx.count("synthetic_calls")
        n = kernel.shape[0]
        scale = max(1.0, n * float(np.max(np.abs(kernel))))
        tol = 1e-9 * scale
        if self.mode == "bigfit":
            return self.check_light(snap, split, tol)
        J0, labels, cands = ref.enumerate_candidates(kernel, X, leaves, Y, Z, n_clusters, K_max, n_leaves, min_leaf, feats)
        for fam in {c[6] for c in cands}:
            ctx.count("considered:" + fam)
        _, leaf_of, cluster_of_leaf = ref.state_labels(Y, Z, n_leaves)
        gain = float(split.gain)
        best = max(cands, key=lambda c: c[0]) if cands else None
        if cands:
            ctx.count("calls_with_candidates")
            ctx.distinct(kernel.tobytes().hex()[:32], labels.tobytes().hex()[:64], leaf_of.tobytes().hex()[:64], K_max,
                         min_leaf, tuple(int(x) for x in leaves), tuple(int(x) for x in feats))
        state_desc = {"n": n, "n_clusters": n_clusters, "K_max": K_max, "n_leaves": n_leaves, "min_leaf": min_leaf,
                      "leaves_to_explore": leaves, "features": feats, "labels": labels, "leaf_of": leaf_of}
        # inside a real fit: the leaves handed over as explorable are exactly the current leaves that the structural
        # limits allow to split (depth below max_depth, at least min_samples_split samples)
        est = self.cur
        if self.mode == "fit" and est is not None and hasattr(est, "tree_"):
            t = est.tree_
            max_depth = est.max_depth if est.max_depth is not None else n
            want = set()
            for j in range(n_leaves):
                members = np.where(leaf_of == j)[0]
                if len(members) == 0:
                    continue
                node = ref.route(t, X[members[0]])[1]
                if t.depths[node] < max_depth and len(members) >= est.min_samples_split:
                    want.add(j)
            got = set(int(x) for x in leaves)
            ctx.count("explorable_sets_checked")
            if got != want:
                missing, extra = sorted(want - got), sorted(got - want)
                ctx.violation("explorable-leaves", "explorable-leaves-" + ("missing" if missing else "extra"),
                              observed={"handed_to_search": sorted(got), "missing": missing, "extra": extra,
                                        "depths": {int(j): int(t.depths[ref.route(t, X[np.where(leaf_of == j)[0][0]])[1]]) for j in sorted(want | got)},
                                        "max_depth": max_depth, "min_samples_split": est.min_samples_split},
                              expected=sorted(want))
        returned = None
        if split.leaf >= 0 and gain > 0:
            lt, rt, leaf, feat, thr = int(split.left_target), int(split.right_target), int(split.leaf), int(split.feature), float(split.threshold)
            k = int(cluster_of_leaf[leaf])
            fam = family(lt, rt, k, n_clusters)
            returned = fam
            ctx.count("chosen:" + fam)
            if fam == "double_star":
                self.fit_had_double_star = True
            # admissibility of what was returned
            match = [c for c in cands if c[1] == leaf and c[2] == feat and c[3] == thr and c[4] == lt and c[5] == rt]
            if not match:
                ctx.violation("admissible-split", f"returned-split-not-admissible/{fam}",
                              observed={"leaf": leaf, "feature": feat, "threshold": thr, "targets": [lt, rt], "gain": gain,
                                        "state": state_desc}, expected="one of the enumerated admissible candidates")
                return
            real = match[0][0]
            if abs(real - gain) > tol:
                mech = "double-star-gain" if fam == "double_star" else f"wrong-gain/{fam}"
                ctx.violation("gain-is-real", mech,
                              observed={"returned_gain": gain, "family": fam, "leaf": leaf, "feature": feat, "threshold": thr,
                                        "targets": [lt, rt], "state": state_desc},
                              expected={"actual_increase": real, "tol": tol}, detail={"kernel": kernel, "X": X})
                if fam != "double_star":
                    return
            ctx.sample({"n": n, "n_clusters": n_clusters, "K_max": K_max, "chosen": fam, "gain": gain, "actual_increase": real,
                        "candidates": len(cands), "mode": self.mode})
        else:
            ctx.count("no_split_calls")
            gain = max(gain, 0.0) if split.leaf < 0 else gain
        # optimality
        if best is not None and best[0] > max(gain, 0.0) + tol:
            bfam = best[6]
            mech = f"missed-better-split/{bfam}"
            if bfam == "double_star" or returned == "double_star":
                mech = "double-star-gain"
            elif bfam == "reallocation" and returned is not None:
                # best left-switch target and best right-switch target at that candidate
                same = [c for c in cands if c[1] == best[1] and c[2] == best[2] and c[3] == best[3] and c[6] == "switch"]
                k = int(cluster_of_leaf[best[1]])
                lefts = [c for c in same if c[5] == k]
                rights = [c for c in same if c[4] == k]
                if lefts and rights:
                    tl = max(lefts, key=lambda c: c[0])[4]
                    tr = max(rights, key=lambda c: c[0])[5]
                    if tl == tr:
                        mech = "realloc-runner-up"
            ctx.violation("best-split", mech,
                          observed={"returned_gain": gain, "returned_family": returned, "state": state_desc},
                          expected={"better": {"gain": best[0], "leaf": best[1], "feature": best[2], "threshold": best[3],
                                               "targets": [best[4], best[5]], "family": bfam}, "tol": tol},
                          detail={"kernel": kernel, "X": X, "Y": Y[:, :n_leaves], "Z": Z[:n_leaves]})


def setup(ctx):
    return State(ctx)


def _check_light(self, snap, split, tol):
    """Long fits (n up to ~170, dozens of leaves and clusters): enumerating every candidate is out of reach, so only the
    clauses that cost O(n^2) are decided: the returned split is admissible (explorable leaf, candidate feature, observed
    threshold followed by a larger value, both sides >= min_leaf, targets allowed by max_clusters) and its gain is the
    real increase of the objective (relabel + recompute)."""
    ctx = self.ctx
    kernel, X, leaves, Y, Z, n_clusters, K_max, n_leaves, min_leaf, feats = snap
    ctx.count("light_calls")
    labels, leaf_of, cluster_of_leaf = ref.state_labels(Y, Z, n_leaves)
    gain = float(split.gain)
    if not (split.leaf >= 0 and gain > 0):
        ctx.count("no_split_calls")
        return
    lt, rt, leaf, feat, thr = int(split.left_target), int(split.right_target), int(split.leaf), int(split.feature), float(split.threshold)
    k = int(cluster_of_leaf[leaf])
    fam = family(lt, rt, k, n_clusters)
    ctx.count("chosen:" + fam)
    ctx.count("light_chosen:" + fam)
    if fam == "double_star":
        self.fit_had_double_star = True
    idx = np.where(leaf_of == leaf)[0]
    vals = X[idx, feat] if 0 <= feat < X.shape[1] else np.array([])
    nl, nr = int(np.sum(vals <= thr)), int(np.sum(vals > thr))
    sizes = np.bincount(labels, minlength=max(n_clusters, 1))
    whole = len(idx) == sizes[k]
    ok = (leaf in set(int(x) for x in leaves) and feat in set(int(x) for x in feats) and bool(np.any(vals == thr))
          and nl >= min_leaf and nr >= min_leaf and 0 <= lt < K_max and 0 <= rt < K_max
          and max(lt, rt) <= n_clusters + (1 if fam == "double_star" else 0)
          and not (fam in ("double_star", "reallocation") and whole) and not (fam == "reallocation" and lt == rt))
    if fam == "double_star":
        ok = ok and {lt, rt} == {n_clusters, n_clusters + 1} and n_clusters < K_max - 1
    if fam == "star":
        ok = ok and n_clusters < K_max and max(lt, rt) == n_clusters and min(lt, rt) == k
    if not ok:
        ctx.violation("admissible-split", f"returned-split-not-admissible/{fam}",
                      observed={"leaf": leaf, "feature": feat, "threshold": thr, "targets": [lt, rt], "gain": gain, "sizes": [nl, nr],
                                "n_clusters": n_clusters, "K_max": K_max, "min_leaf": min_leaf, "n_leaves": n_leaves},
                      expected="explorable leaf, candidate feature, observed threshold, both sides >= min_leaf, legal targets")
        return
    real, _, _ = ref.split_gain(kernel, X, Y, Z, n_leaves, leaf, feat, thr, lt, rt)
    ctx.distinct("light", kernel.tobytes().hex()[:32], labels.tobytes().hex()[:64], leaf, feat, thr)
    if abs(real - gain) > tol:
        mech = "double-star-gain" if fam == "double_star" else f"wrong-gain/{fam}"
        ctx.violation("gain-is-real", mech,
                      observed={"returned_gain": gain, "family": fam, "leaf": leaf, "feature": feat, "threshold": thr, "targets": [lt, rt],
                                "n": int(kernel.shape[0]), "n_leaves": n_leaves, "n_clusters": n_clusters},
                      expected={"actual_increase": real, "tol": tol})


State.check_light = _check_light


def _random_kernel(rng, X, nonneg):
    from sklearn.metrics import pairwise_kernels
    n = len(X)
    r = rng.random()
    if r < 0.15:
        return gen.sym_matrix(rng, n, "indefinite"), "precomputed"
    if r < 0.25:
        return gen.sym_matrix(rng, n, "psd"), "precomputed"
    ks = [k for k in gen.KERNELS if nonneg or k not in ("chi2", "additive_chi2")]
    k = ks[int(rng.integers(0, len(ks)))]
    return pairwise_kernels(X, metric=k), k


def _run_bigfit(case, ctx, st):
    from gemclus.tree import Kauri
    i = case["i"]
    rng = gen.rng_for(case["seed"], ID, "bigfit", i)
    over64 = i % 2 == 0          # every other long fit asks for more than 64 clusters
    n, d = (int(rng.integers(130, 171)) if over64 else int(rng.integers(90, 171))), int(rng.integers(1, 4))
    X = gen.make_data(rng, n, d, "blobs", centers=int(rng.integers(3, 12)))
    K = int(rng.integers(66, 81)) if over64 else int(rng.integers(34, max(36, int(0.6 * n))))
    params = {"max_clusters": K, "kernel": ["rbf", "linear", "laplacian", "poly"][int(rng.integers(0, 4))],
              "random_state": gen.subseed(rng) % 100000}
    if rng.random() < 0.3:
        params["min_samples_leaf"] = 2
        params["min_samples_split"] = int(rng.integers(4, 7))
    est = Kauri(**params)
    st.mode = "bigfit"
    st.fit_had_double_star = False
    st.fit_calls = 0
    ctx.case = dict(case, params=params, n=n, d=d)
    ctx.count("bigfits")
    try:
        est.fit(X)
    except Exception as e:
        ctx.violation("fit-completes", f"kauri-fit-raises/{type(e).__name__}", observed={"exc": repr(e)[:300], "params": params},
                      expected="fit returns")
        return
    finally:
        st.mode = "fit"
    from sklearn.metrics import pairwise_kernels
    kernel = pairwise_kernels(X, metric=params["kernel"])
    t = est.tree_
    n_leaves = int(sum(1 for q in range(t.n_nodes) if t.children_left[q] == -1))
    ctx.maxi("max:bigfit_leaves", n_leaves)
    if n_leaves > 32:
        ctx.count("bigfits_over_32_leaves")
    if n_leaves > 64:
        ctx.count("bigfits_over_64_leaves")
    root = ref.objective_fast(np.zeros(n, dtype=int), kernel)
    total = root + float(sum(t.gains))
    sc = float(est.score(X))
    real = ref.objective_fast(np.asarray(est.labels_), kernel)
    tol = 1e-9 * max(1.0, n * float(np.max(np.abs(kernel)))) * max(1, len(t.gains))
    ctx.count("fits_score_checked")
    if abs(sc - real) > tol:
        ctx.violation("score-is-objective", "score-not-objective-of-labels", observed={"score": sc, "leaves": n_leaves}, expected=real)
    if abs(total - real) > tol:
        mech = "double-star-gain" if st.fit_had_double_star else "score-not-root-plus-gains"
        ctx.violation("score-decomposition", mech, observed={"root_plus_gains": total, "leaves": n_leaves, "params": params},
                      expected={"objective_of_labels": real})


def run_case(case, ctx, st):
    from gemclus.tree import Kauri
    if case["kind"] == "bigfit":
        return _run_bigfit(case, ctx, st)
    if case["kind"] == "fit":
        i = case["i"]
        rng = gen.rng_for(case["seed"], ID, "fit", i)
        nmax = 60 if case.get("tier") == "thorough" else 40
        n, d = int(rng.integers(4, nmax + 1)), int(rng.integers(1, 6))
        nonneg = bool(rng.random() < 0.15)
        kind = "nonneg" if nonneg else ["blobs", "ties", "duprows", "blobs"][int(rng.integers(0, 4))]
        X = gen.make_data(rng, n, d, kind, centers=int(rng.integers(2, 6)))
        params, pre = gen.random_config(rng, "Kauri", n, d, nonneg=nonneg)
        params["max_clusters"] = int(rng.integers(1, 10))
        if rng.random() < 0.5:
            params.pop("max_depth", None)
            params.pop("max_leaves", None)
        if i % 4 == 1:
            # deep, unbalanced growth against a binding depth limit: many clusters, small leaves, max_depth 3..5
            params.update(max_depth=int(rng.integers(3, 6)), max_clusters=int(rng.integers(5, 10)), min_samples_leaf=1,
                          min_samples_split=2)
            params.pop("max_leaves", None)
            params.pop("max_features", None)
        y = None
        if pre:
            y = gen.sym_matrix(rng, n, ["indefinite", "psd"][int(rng.integers(0, 2))])
        est = Kauri(**params)
        st.mode = "fit"
        st.fit_had_double_star = False
        st.fit_calls = 0
        ctx.case = dict(case, params=params, n=n, d=d, data=kind)
        ctx.count("fits")
        try:
            est.fit(X, y)
        except Exception as e:
            ctx.violation("fit-completes", f"kauri-fit-raises/{type(e).__name__}", observed={"exc": repr(e)[:300], "params": params},
                          expected="fit returns")
            return
        # (d) final score = root score + sum of recorded gains
        if pre:
            kernel = np.asarray(y, dtype=float)
        else:
            from sklearn.metrics import pairwise_kernels
            kernel = pairwise_kernels(np.asarray(X, dtype=float), metric=params["kernel"])   # the configured kernel, computed here
        root = ref.objective_fast(np.zeros(n, dtype=int), kernel)
        total = root + float(sum(est.tree_.gains))
        sc = float(est.score(X, y))
        real = ref.objective(est.labels_, kernel) if n <= 30 else ref.objective_fast(est.labels_, kernel)
        tol = 1e-9 * max(1.0, n * float(np.max(np.abs(kernel)))) * max(1, len(est.tree_.gains))
        ctx.count("fits_score_checked")
        if abs(sc - real) > tol:
            ctx.violation("score-is-objective", "score-not-objective-of-labels", observed={"score": sc}, expected=real)
        if abs(total - real) > tol:
            mech = "double-star-gain" if st.fit_had_double_star else "score-not-root-plus-gains"
            ctx.violation("score-decomposition", mech,
                          observed={"root_plus_gains": total, "gains": est.tree_.gains, "params": params},
                          expected={"objective_of_labels": real})
        # stopping rule: fit may stop only when no admissible split has positive gain or a structural limit is hit
        if params.get("max_features") is None or params.get("max_features") >= d:
            t = est.tree_
            leaf_nodes = [q for q in range(t.n_nodes) if t.children_left[q] == -1]
            max_leaves = params.get("max_leaves") or n
            max_depth = params.get("max_depth") or n
            if len(leaf_nodes) < max_leaves:
                leaves_ = np.asarray(est.leaves_)
                labels_ = np.asarray(est.labels_)
                node_of_sample = np.array([ref.route(t, x)[1] for x in X])
                L = len(leaf_nodes)
                ids = sorted(set(int(v) for v in leaves_))
                if len(ids) == L:
                    remap = {v: a for a, v in enumerate(ids)}
                    Z = np.zeros((L + 1, n), dtype=np.int64)
                    Z[[remap[int(v)] for v in leaves_], np.arange(n)] = 1
                    nc = int(labels_.max()) + 1
                    Y = np.zeros((params["max_clusters"], L + 1), dtype=np.int64)
                    explorable = []
                    for v in ids:
                        members = np.where(leaves_ == v)[0]
                        Y[int(labels_[members[0]]), remap[v]] = 1
                        nd = int(node_of_sample[members[0]])
                        if t.depths[nd] < max_depth and len(members) >= params["min_samples_split"]:
                            explorable.append(remap[v])
                    if explorable:
                        J0, _, cands = ref.enumerate_candidates(np.asarray(kernel, dtype=float), X, explorable, Y, Z, nc,
                                                                params["max_clusters"], L, params["min_samples_leaf"], list(range(d)))
                        ctx.count("stop_rule_checked")
                        if cands:
                            b = max(cands, key=lambda c: c[0])
                            if b[0] > tol:
                                mech = ("double-star-gain" if (b[6] == "double_star" or st.fit_had_double_star)
                                        else "stopped-with-positive-gain-available/" + b[6])
                                ctx.violation("stopping-rule", mech,
                                              observed={"leaves": L, "max_leaves": max_leaves, "params": params},
                                              expected={"available": {"gain": b[0], "leaf": b[1], "feature": b[2], "threshold": b[3],
                                                                      "targets": [b[4], b[5]], "family": b[6]}})
    else:
        st.mode = "synthetic"
        for idx in range(case["i0"], case["i1"]):
            rng = gen.rng_for(case["seed"], ID, "syn", idx)
            n, d = int(rng.integers(3, 28)), int(rng.integers(1, 4))
            kind = ["blobs", "ties", "duprows"][int(rng.integers(0, 3))]
            X = gen.make_data(rng, n, d, kind)
            kernel, kname = _random_kernel(rng, X, False)
            L = int(rng.integers(1, min(8, n) + 1))
            # samples -> leaves (each leaf non-empty), leaves -> clusters (each cluster non-empty)
            leaf_of = np.concatenate([np.arange(L), rng.integers(0, L, size=n - L)])
            leaf_of = leaf_of[rng.permutation(n)]
            nc = int(rng.integers(1, min(L, 5) + 1))
            cl_of_leaf = np.concatenate([np.arange(nc), rng.integers(0, nc, size=L - nc)])
            cl_of_leaf = cl_of_leaf[rng.permutation(L)]
            # relabel clusters so that they are 0..nc-1 (they are, by construction)
            K_max = int(nc + (0 if rng.random() < 0.35 else rng.integers(0, 4)))
            max_leaves = int(L + rng.integers(1, 4))
            Z = np.zeros((max_leaves, n), dtype=np.int64)
            Z[leaf_of, np.arange(n)] = 1
            Y = np.zeros((K_max, max_leaves), dtype=np.int64)
            Y[cl_of_leaf, np.arange(L)] = 1
            m = int(rng.integers(1, L + 1))
            leaves = np.sort(rng.choice(L, size=m, replace=False)).astype(np.int64)
            nf = int(rng.integers(1, d + 1))
            feats = rng.choice(d, size=nf, replace=False).astype(np.intp)
            min_leaf = int(rng.integers(1, 4))
            ctx.case = {"kind": "synthetic", "seed": case["seed"], "i0": idx, "i1": idx + 1,
                        "detail": {"n": n, "d": d, "leaves": L, "clusters": nc, "K_max": K_max, "kernel": kname}}
            try:
                st.wrapper(np.ascontiguousarray(kernel, dtype=np.float64), X, leaves, Y, Z, nc, K_max, L, min_leaf, feats)
            except Exception as e:
                ctx.violation("call-completes", f"find_best_split-raises/{type(e).__name__}",
                              observed={"exc": repr(e)[:300]}, expected="a Split")
