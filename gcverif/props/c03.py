"""C03 - every training update follows the true gradient of the regularised objective.

Invariant at a hook: inside sklearn's BaseOptimizer.update_params, before the step is applied, the gradient list
handed to the optimiser is compared entry by entry with the numeric derivative of
    F(theta) = GEMINI(model._infer(X_batch), affinity_batch) - penalty(theta)
evaluated on the live model with the parameters perturbed in place (and restored).
"""
import traceback

import numpy as np

from .. import gen, numdiff
from . import _gem, _train

ID = "C03"
RULE = ("real fits (and sparse paths) of the 8 gradient-trained families x 13 GEMINI names and parameterised instances x "
        "{sgd, adam} x batch sizes {1, 2, ceil(n/3), n, None, n+3} x n 6..16, d 1..4, hidden 1..5, K 2..4, Douglas "
        "n_cuts 1..3, learning rates 0.01..0.5, 3..40 epochs, plain and must-link/cannot-link decorated; monitored steps: "
        "first, last and random ones; per monitored step every parameter array is differentiated numerically (all "
        "entries up to a cap, else a random subset). One evaluation = one monitored optimiser step. Non-trivial = >=1 "
        "smooth coordinate compared and gradient norm > 1e-12; distinct by (family, gemini, solver, batch size, step, "
        "hash of parameters).")
ASSUMPTIONS = ["documented penalties: RIM reg*||W||^2; KernelRIM reg*tr(W' K_train W); mlcl (f/2)*sum_ML||p_i-p_j||^2 - "
               "(f/2)*sum_CL||p_i-p_j||^2 over pairs inside the batch; sparse models none (the proximal step is C06's)",
               "numeric-derivative oracle of DESIGN.md section 3; kinks (ReLU, TV, OT bases) skipped, never reported"]
EVAL_COUNTER = "steps_monitored"
FAMILIES = ["LinearModel", "RIM", "KernelRIM", "MLPModel", "SparseLinearModel", "SparseMLPModel", "CategoricalModel",
            "Douglas"]
REQUIRED = {"quick": dict({"fits_with_user_epsilon": 8, "steps_monitored": 400, "coords_compared": 8000, "decorated_steps": 40, "late_steps": 100, "continuation_steps_from_a_switched_off_feature": 20,
                           "path_steps": 10},
                          **{"steps:" + f: 25 for f in FAMILIES}),
            "thorough": dict({"steps_monitored": 8000, "coords_compared": 200000, "decorated_steps": 800},
                             **{"steps:" + f: 500 for f in FAMILIES})}
SHARD_TIMEOUT = {"quick": 1200, "thorough": 7000}


def cases(tier, seed):
    n = 320 if tier == "quick" else 6400
    return [{"kind": "fit", "seed": seed, "i": i, "tier": tier} for i in range(n)]


def family_of(model):
    names = [c.__name__ for c in type(model).__mro__]
    for f in ("KernelRIM", "RIM", "SparseMLPModel", "SparseLinearModel", "MLPModel", "LinearModel", "CategoricalModel",
              "Douglas"):
        if f in names:
            return f
    return type(model).__name__


class State(_train.Listener):
    def __init__(self, ctx):
        self.ctx = ctx
        self.tap = _train.TrainTap(ctx, self)
        self.rng = np.random.default_rng(0)
        self.cap = 16
        self.mlcl = None
        self.step = 0
        self.extra_off = 0
        self.monitor_steps = set()
        self.path_prob = 0.0
        self.kind = "fit"
        self.desc = None

    def close(self):
        self.tap.close()

    # --- bookkeeping ---------------------------------------------------------------------------------------
    def fit_enter(self, model, X, y, kind):
        if len(self.tap.stack) == 1:
            self.step = 0
            self.extra_off = 0
        self.kind = self.tap.stack[0][2]

    # --- the invariant -------------------------------------------------------------------------------------
    def step_before(self, model, opt, params, grads):
        k = self.step
        self.step += 1
        ctx = self.ctx
        ctx.count("steps_seen")
        in_path_loop = self.kind == "path" and len(self.tap.stack) == 1
        if in_path_loop:
            if self.rng.random() >= self.path_prob:
                return
        elif k not in self.monitor_steps:
            # steps taken while a sparse model has already switched a feature off are monitored one time in five beyond
            # the drawn ones (at most 6 per fit): that is the regime in which "selected" and "all" features differ
            W = getattr(model, "W_skip_", None) if model is not None else None
            if W is None and model is not None and hasattr(model, "get_selection"):
                W = getattr(model, "W_", None)
            off = W is not None and hasattr(model, "get_selection") and bool(np.any(np.all(np.asarray(W) == 0, axis=1))) \
                and not bool(np.all(np.asarray(W) == 0))
            if not off or self.extra_off >= 6 or self.rng.random() >= 0.2:
                return
            self.extra_off += 1
            ctx.count("steps_with_a_feature_switched_off_monitored")
        lb = self.tap.last_batch
        if model is None or lb is None or lb[0] is not model:
            ctx.count("step_without_batch_context")
            return
        _, Xfull, Afull, Xb, Ab, ids = lb
        fam = family_of(model)
        gem = model.get_gemini()
        # ---- penalty -----------------------------------------------------------------------------------
        pairs = None
        if self.mlcl is not None:
            if ids is None:
                try:
                    ids = np.arange(len(Xb)) if fam == "CategoricalModel" else _train.decode_ids(Xfull, Xb)
                except _train.AmbiguousRows:
                    ids = None
            if ids is None:
                ctx.count("decorated_step_ids_undecodable")
                return
            pos = {int(s): a for a, s in enumerate(ids)}
            ml, cl, factor = self.mlcl
            pairs = ([(pos[i], pos[j], -1.0) for (i, j) in ml if i in pos and j in pos]
                     + [(pos[i], pos[j], +1.0) for (i, j) in cl if i in pos and j in pos])

        def F():
            P = model._infer(Xb, retain=False)
            val = float(np.asarray(gem(P, Ab)).reshape(-1)[0])
            if fam == "RIM":
                val -= model.reg * float(np.sum(model.W_ ** 2))
            elif fam == "KernelRIM":
                val -= model.reg * float(np.trace(model.W_.T @ np.asarray(Xfull) @ model.W_))
            if pairs:
                f = self.mlcl[2]
                for (a, b, sgn) in pairs:
                    val += sgn * 0.5 * f * float(np.sum((P[a] - P[b]) ** 2))
            return val

        retained = {k2: getattr(model, k2).copy() for k2 in ("H_", "_leaf") if isinstance(getattr(model, k2, None), np.ndarray)}
        P0 = model._infer(Xb, retain=False)
        ferr = _gem.score_abs_err(gem, P0, Ab)
        if fam == "KernelRIM":
            ferr += 100 * numdiff.EPS * model.reg * float(np.abs(np.trace(model.W_.T @ np.asarray(Xfull) @ model.W_)))
        # the property speaks about the gradient of the GEMINI of the batch predictions: where the GEMINI itself has a kink
        # at these predictions (two cluster conditionals that coincide - all rows predicted alike once every feature is
        # switched off - give |.| / sqrt(.) at 0 for the Wasserstein, TV and MMD distances) there is no such gradient, the
        # implementation returns a subgradient and the chain rule through it need not be the derivative of the composite
        # even along a parameter on which the composite happens to be smooth (met in the thorough tier, seed 41).  Probed in
        # the space of predictions: one-sided directional derivatives along three random logit directions must agree.
        try:
            if P0.ndim == 2 and np.all(np.isfinite(P0)) and np.all(P0 > 0):
                L0 = np.log(P0)
                g0 = float(np.asarray(gem(P0, Ab)).reshape(-1)[0])
                for _ in range(3):
                    V = self.rng.normal(size=P0.shape)
                    hh = 1e-6
                    gp = float(np.asarray(gem(gen.softmax(L0 + hh * V), Ab)).reshape(-1)[0])
                    gm = float(np.asarray(gem(gen.softmax(L0 - hh * V), Ab)).reshape(-1)[0])
                    dp, dm = (gp - g0) / hh, (g0 - gm) / hh
                    if abs(dp - dm) > 1e-3 * max(abs(dp), abs(dm)) + 1e3 * ferr / hh + 1e-9:
                        ctx.count("steps_skipped_gemini_has_a_kink_at_the_batch_predictions")
                        return
        except Exception:
            pass
        ctx.count("steps_monitored")
        ctx.count("steps:" + fam)
        if pairs is not None:
            ctx.count("decorated_steps")
            if pairs:
                ctx.count("decorated_steps_with_pairs_in_batch")
        if in_path_loop:
            ctx.count("path_steps")
        if k >= 5:
            ctx.count("late_steps")
        if len(grads) != len(params):
            ctx.violation("update-params", f"gradient-list-length/{fam}", observed=len(grads), expected=len(params))
            return
        ncmp, gnorm = 0, 0.0
        for j, (theta, gr) in enumerate(zip(params, grads)):
            gr = np.asarray(gr)
            if gr.shape != theta.shape:
                ctx.violation("update-params", f"gradient-shape/{fam}/param{j}", observed=list(gr.shape),
                              expected=list(theta.shape))
                return
            gnorm += float(np.sum(gr ** 2))
            gscale = float(np.max(np.abs(gr))) if gr.size else 0.0
            flat = np.arange(theta.size)
            if theta.size > self.cap:
                flat = self.rng.choice(theta.size, size=self.cap, replace=False)
            tview = theta.reshape(-1) if theta.flags.c_contiguous else None
            for fidx in flat:
                idx = np.unravel_index(int(fidx), theta.shape)
                x0 = float(theta[idx])

                def f(t, idx=idx, x0=x0):
                    theta[idx] = x0 + t
                    try:
                        return F()
                    finally:
                        theta[idx] = x0
                d = numdiff.derivative(f, x0, f_abs_err=ferr)
                if d is None:
                    ctx.count("kink_skipped")
                    continue
                R, err, noise = d
                scale = max(abs(R), gscale)
                tol = numdiff.tolerance(R, err, noise, scale)
                if numdiff.ill_conditioned(noise, scale):
                    # round-off dominates the derivative: only a deviation far above the noise floor is decidable
                    # (e.g. a non-zero direction where the batch objective is constant)
                    ctx.count("coords_compared_weak")
                    tol += 10 * noise
                else:
                    ctx.count("coords_compared")
                    ncmp += 1
                ana = -float(gr[idx])
                ctx.maxi("max:err_over_tol", abs(ana - R) / tol)
                if not abs(ana - R) <= tol and not numdiff.confirmed_mismatch(f, x0, ana, scale, ferr):
                    ctx.count("mismatch_not_confirmed_at_finer_scales")
                elif not abs(ana - R) <= tol:
                    import os as _os
                    if _os.environ.get("GCVERIF_DIAG"):
                        f0_ = f(0.0)
                        try:
                            np.savez("/tmp/gcverif-diag-c03.npz", Xb=np.asarray(Xb), Ab=np.asarray(Ab) if Ab is not None else np.zeros(0),
                                     P=np.asarray(model._infer(Xb, retain=False)), eps=float(getattr(gem, "epsilon", 0)))
                        except Exception as e_:
                            print("DIAG dump failed", repr(e_))
                        for h0_ in (1e-4, 1e-5, 1e-6):
                            print("DIAG one_step", h0_, numdiff._one_step(f, f0_, h0_ * max(1.0, abs(x0)), ferr), "x0", x0, "ferr", ferr, "scale", scale, "tol", tol, flush=True)
                        for h_ in (1e-2, 1e-3, 1e-4, 1e-5, 1e-6, 1e-7, 1e-8, 1e-9):
                            print("DIAG h=%g central=%.12g fwd=%.12g bwd=%.12g analytic=%.12g" % (
                                h_, (f(h_) - f(-h_)) / (2 * h_), (f(h_) - f0_) / h_, (f0_ - f(-h_)) / h_, ana), flush=True)
                    ctx.violation("update-direction", f"update-not-gradient/{fam}/param{j}",
                                  observed={"minus_grad_entry": ana, "param": j, "index": [int(x) for x in idx],
                                            "step": k, "gemini": type(gem).__name__, "ovo": getattr(gem, "ovo", None),
                                            "batch_rows": len(Xb), "decorated": pairs is not None},
                                  expected={"numeric_dF": R, "tol": tol})
                    break
        for k2, v in retained.items():
            if not np.array_equal(getattr(model, k2), v, equal_nan=True):
                ctx.monitor_error("monitor disturbed retained state " + k2)
        if ncmp and gnorm > 1e-24:
            ctx.distinct(fam, type(gem).__name__, getattr(gem, "ovo", None), type(opt).__name__, len(Xb), k,
                         params[0].tobytes().hex()[:48])
            ctx.sample({"family": fam, "estimator": type(model).__name__, "gemini": type(gem).__name__,
                        "ovo": getattr(gem, "ovo", None), "solver": type(opt).__name__, "batch_rows": len(Xb),
                        "step": k, "coords_compared": ncmp, "grad_norm": gnorm ** 0.5, "decorated": pairs is not None,
                        "in_path_loop": in_path_loop})


def setup(ctx):
    return State(ctx)


def reach_targets(reach):
    for name in ["LinearModel", "RIM", "KernelRIM", "MLPModel", "SparseLinearModel", "SparseMLPModel",
                 "CategoricalModel", "Douglas"]:
        reach.add_class(gen.get_class(name), {"_compute_grads", "_update_weights", "_infer"})
    from gemclus._base_gemini import DiscriminativeModel
    reach.add_class(DiscriminativeModel, {"fit", "_update_weights"})


ALL_FAMILIES = ["LinearModel", "LinearMMD", "LinearWasserstein", "RIM", "KernelRIM", "MLPModel", "MLPMMD",
                "MLPWasserstein", "SparseLinearModel", "SparseLinearMMD", "SparseLinearMI", "SparseMLPModel",
                "SparseMLPMMD", "CategoricalModel", "CategoricalMMD", "CategoricalWasserstein", "Douglas"]
WEIGHTED = (["LinearModel", "RIM", "KernelRIM", "MLPModel", "SparseLinearModel", "SparseMLPModel", "CategoricalModel",
             "Douglas"] * 3 + ALL_FAMILIES)


def innermost_gemclus_frame(exc):
    tb = traceback.extract_tb(exc.__traceback__)
    for fr in reversed(tb):
        if "/gemclus/" in fr.filename:
            return fr.name
    return "outside-gemclus"


def run_case(case, ctx, st):
    i = case["i"]
    rng = gen.rng_for(case["seed"], ID, "fit", i)
    st.rng = gen.rng_for(case["seed"], ID, "mon", i)
    st.cap = 64 if case.get("tier") == "thorough" else 16
    name = WEIGHTED[i % len(WEIGHTED)]
    n, d = int(rng.integers(6, 17)), int(rng.integers(1, 5))
    wide = rng.random() < 0.12           # occasional wide shapes (many samples / features / clusters / hidden units)
    if wide:
        n, d = int(rng.integers(17, 41)), int(rng.integers(4, 10))
    if name == "Douglas":
        d = int(rng.integers(1, 4))
    nonneg = bool(rng.random() < 0.15)
    X = gen.make_data(rng, n, d, "nonneg" if nonneg else "blobs")
    X += rng.normal(scale=1e-3, size=X.shape)      # rows pairwise distinct (unique-id coding)
    K = int(rng.integers(2, min(4, n) + 1)) if not wide else int(rng.integers(4, 10))
    epochs = int(rng.integers(3, 41)) if rng.random() < 0.3 else int(rng.integers(3, 9))
    params, pre = gen.random_config(rng, name, n, d, K=K, max_iter=epochs, nonneg=nonneg)
    params["learning_rate"] = float(10 ** rng.uniform(-2, -0.3))
    if wide and "n_hidden_dim" in params:
        params["n_hidden_dim"] = int(rng.integers(6, 25))
    if name not in gen.NONPARAMETRIC:
        params["batch_size"] = [1, 2, -(-n // 3), n, None, n + 3][int(rng.integers(0, 6))]
    if name in gen.SPARSE:
        params["alpha"] = float([0.0, 1e-3, 1e-2, 0.1][int(rng.integers(0, 4))])
        if rng.random() < 0.35:
            # strong penalty: whole features are discarded during the fit and later steps run with zeroed rows
            params.update(alpha=float(rng.choice([2.0, 5.0, 8.0, 15.0])), solver="sgd", learning_rate=0.1,
                          max_iter=int(rng.integers(15, 41)))
            epochs = params["max_iter"]
            strong = True
    if name == "Douglas" and rng.random() < 0.35:
        params["temperature"] = float(10 ** rng.uniform(-3, -1.5))     # saturated soft bins (memberships exactly 0)
    if name in gen.GENERIC and pre is None and rng.random() < 0.15:
        # an objective with a clipping bound the user chose (0.005 .. 0.08) and steps large enough for predictions to
        # leave [epsilon, 1 - epsilon]: clipping is part of the objective, and must stay inside it
        cls = ["KLGEMINI", "MI", "KLGEMINI", "TVGEMINI", "HellingerGEMINI", "ChiSquareGEMINI"][int(rng.integers(0, 6))]
        g = {"cls": cls, "epsilon": float(10 ** rng.uniform(-2.3, -1.1))}
        if cls != "MI":
            g["ovo"] = bool(rng.random() < 0.5)
        params["gemini"] = g
        params["learning_rate"] = float(10 ** rng.uniform(-1.0, -0.2))
        ctx.count("fits_with_user_epsilon")
    y = gen.precomputed_for(rng, pre, n)
    est = gen.build_estimator(name, params)
    # decoration
    st.mlcl = None
    decorated = rng.random() < 0.25
    if decorated:
        from gemclus import add_mlcl_constraint
        perm = [int(x) for x in rng.permutation(n)]
        ml = [(perm[0], perm[1])] + ([(perm[1], perm[2])] if n > 4 and rng.random() < 0.5 else [])
        cl = [(perm[3], perm[4])] if n > 5 else []
        if n > 6 and rng.random() < 0.5:
            cl.append((perm[0], perm[5]))
        if n > 7 and rng.random() < 0.5:
            # "stars": one sample on the same side of several pairs of the same kind, and a repeated pair
            ml.append((perm[6], perm[1]))
            cl.append((perm[3], perm[7]))
            if rng.random() < 0.3:
                cl.append(cl[0])
        factor = float(10 ** rng.uniform(-1, 1))
        try:
            est = add_mlcl_constraint(est, ml, cl, factor)
            st.mlcl = (ml, cl, factor)
        except ValueError:
            # a consistent constraint set was refused: C14's business, here the fit simply runs undecorated
            ctx.count("mlcl_refused_consistent_set")
            decorated = False
    bs = params.get("batch_size")
    nb = 1 if (bs is None or name in gen.NONPARAMETRIC) else -(-n // bs)
    total = epochs * nb
    k_extra = 2
    st.monitor_steps = {0, total - 1} | {int(x) for x in rng.integers(0, total, size=k_extra)}
    if name in gen.SPARSE and params.get("alpha", 0) >= 2.0:
        st.monitor_steps |= {int(x) for x in rng.integers(total // 3, total, size=4)}
    use_path = name in gen.SPARSE and i % 4 == 0 and not decorated
    st.path_prob = 0.02
    ctx.case = dict(case, estimator=name, params=params, n=n, d=d, decorated=decorated, path=use_path)
    ctx.count("fits")
    try:
        if use_path:
            est.set_params(alpha=0.05)
            est.path(X, y, alpha_multiplier=float(rng.uniform(1.5, 3.0)), min_features=max(1, d - 1), max_patience=2)
        else:
            est.fit(X, y)
    except Exception as e:
        where = innermost_gemclus_frame(e)
        if where not in ("_compute_grads", "intercept_grads", "_update_weights", "_infer", "evaluate", "__call__",
                         "_batchify", "disguise_batch", "fit"):
            # e.g. path() dying in its validation score (C07) - not a statement about update directions
            ctx.count("raised_outside_training_step:" + where)
            return
        ctx.violation("fit-completes", f"training-raises/{family_of(est)}/{type(e).__name__}@{where}",
                      observed={"exc": repr(e)[:300], "estimator": name, "params": params},
                      expected="every step hands a gradient to the optimiser")
        return
    if name in gen.SPARSE and not decorated and not use_path and d >= 2:
        continue_from_switched_off_feature(ctx, st, est, X, y, rng, d)


def continue_from_switched_off_feature(ctx, st, est, X, y, rng, d):
    """Two more training steps of a fitted sparse model, driven through the documented loop (infer -> gemini with gradient
    -> _compute_grads -> _update_weights) from the state in which one feature has just been switched off (its skip /
    weight row and its first-layer row exactly zero, the state every proximal step with a real penalty leads to).  The
    optimiser hook sees these steps like any other and the same derivative oracle decides them."""
    try:
        Xv = np.asarray(X, dtype=np.float64)
        gem = est.get_gemini()
        A = gem.compute_affinity(Xv, y)
        weights = est._get_weights()
        W = est.W_skip_ if hasattr(est, "W_skip_") else est.W_
        f = int(rng.integers(0, d))
        W[f] = 0.0
        if hasattr(est, "W1_"):
            est.W1_[f] = 0.0
        st.tap.stack.append((est, Xv, "fit"))
        st.kind = "fit"
        done = 0
        try:
            for Xb, Ab in est._batchify(Xv, A, np.random.RandomState(int(rng.integers(0, 10 ** 6)))):
                st.monitor_steps = {st.step}
                y_pred = est._infer(Xb)
                _, g = gem(y_pred, Ab, return_grad=True)
                grads = est._compute_grads(Xb, y_pred, g)
                est._update_weights(weights, grads)
                done += 1
                if done >= 2:
                    break
        finally:
            st.tap.stack.pop()
        ctx.count("continuation_steps_from_a_switched_off_feature", done)
    except Exception as e:
        ctx.count("continuation_raised:" + type(e).__name__)
