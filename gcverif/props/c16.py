"""C16 - invalid hyperparameters and malformed inputs are rejected, never trained on.

Hand-written specification table (from the docstrings) of in-domain probes that must be accepted and out-of-domain
probes that must raise a ValueError / TypeError family error, leave no fitted model and perform zero optimiser steps
(counted by the update_params hook).
"""
import contextlib
import io
import itertools

import numpy as np

from .. import gen
from . import _train

# wrong-typed values that are falsy: "dict or None" does not mean "anything that tests false"
FALSY_NON_DICT = [[], (), "", 0, 0.0, False]

ID = "C16"
NATIVE = True
RULE = ("one hyperparameter at a time set to a probe value, everything else valid, for the 18 estimators, the 7 GEMINI "
        "constructors, the 5 generators, add_mlcl_constraint and print_kauri_tree: in-domain probes (interval ends, just "
        "inside, typical, NumPy scalar types) must be accepted; out-of-domain probes (just outside, wrong type, unknown "
        "option, None where not allowed) must raise ValueError/TypeError, leave no labels_, make predict raise and perform 0 "
        "optimiser steps; inconsistent combinations; group lists exhaustively over d<=4 features and <=3 groups with entries "
        "from -1..d; malformed data (NaN, inf, strings, 1-D, 3-D, empty, n<n_clusters); unfitted predict / predict_proba / "
        "score / print must raise. Thorough adds pairwise combinations. One evaluation = one probe. Non-trivial = every "
        "probe; distinct by (target, parameter, probe).")
ASSUMPTIONS = ["only values the documentation places clearly inside or outside a domain are probed (no bool-for-int, no "
               "integral float for int, no RandomState instances where the docs and the validation disagree)"]
EVAL_COUNTER = "probes"
REQUIRED = {"quick": {"probes": 2500, "rejected_ok": 1200, "accepted_ok": 500, "group_lists": 400, "malformed_rejected": 100,
                      "unfitted_refused": 50, "rejected_state_checked": 1000, "mlcl_sets_probed": 600},
            "thorough": {"probes": 8000}}
SHARD_TIMEOUT = {"quick": 1200, "thorough": 7000}

KERN_OK = ["linear", "rbf", "poly", "polynomial", "laplacian", "sigmoid", "cosine", "precomputed"]
METRIC_OK = ["euclidean", "l2", "l1", "manhattan", "cityblock", "cosine", "precomputed"]
BAD_TYPE = object()


def _cb(X, Y=None):
    return np.asarray(X) @ np.asarray(X if Y is None else Y).T


def spec_for(name):
    """param -> (in_domain probes, out_of_domain probes)"""
    s = {}
    if name == "Kauri":
        s["max_clusters"] = ([1, 2, 7, np.int64(3)], [0, -1, 2.5, "3", None])
        s["max_depth"] = ([1, 3, None, np.int32(2)], [0, -1, 1.5, "2"])
        s["min_samples_split"] = ([2, 3, 10], [1, 0, -2, 2.5, None, "2"])
        s["min_samples_leaf"] = ([1], [0, -1, 1.5, None, "1"])
        s["max_features"] = ([1, 2, 50, None], [0, -1, 1.5, "all"])
        s["max_leaves"] = ([2, 3, 40, None], [1, 0, -5, 2.5, "many"])
        s["kernel"] = (["linear", "rbf", "laplacian", "cosine", "sigmoid", "poly", "precomputed"], ["gaussian", 3, None])
        s["verbose"] = ([True, False], ["yes", None])
        s["random_state"] = ([0, 7, None], [-1, "seed", 1.5])
        return s
    s["n_clusters"] = ([1, 2, 4, np.int64(3)], [0, -1, 2.5, "3", None])
    s["max_iter"] = ([1, 2, np.int64(2)], [0, -3, 1.5, None, "10"])
    s["learning_rate"] = ([1e-6, 1e-3, 1, 5.0, np.float32(0.01)], [0, 0.0, -0.1, "0.1", None])
    s["solver"] = (["sgd", "adam"], ["lbfgs", "SGD", None, 1])
    if name not in gen.NONPARAMETRIC:
        s["batch_size"] = ([1, 3, 100, None], [0, -1, 2.5, "8"])
    s["verbose"] = ([True, False], ["yes", None])
    s["random_state"] = ([0, 11, None], [-1, "seed", 1.5])
    if name in gen.GENERIC:
        import gemclus.gemini as gg
        s["gemini"] = (list(gen.GEMINI_NAMES) + [None, gg.MMDGEMINI(), gg.TVGEMINI(ovo=True), gg.MI()],
                       ["foo", "MMD_OVA", 3, BAD_TYPE])
    if name in gen.MMD_VARIANTS:
        s["kernel"] = (KERN_OK + [_cb], ["gaussian", 3, None])
        s["kernel_params"] = ([None, {}], ["gamma=1", 3, [1]] + FALSY_NON_DICT)
        s["ovo"] = ([True, False], ["yes", None])
    if name in gen.WASS_VARIANTS:
        s["metric"] = (METRIC_OK, ["minkowski3", "haversine", "nan_euclidean", 5, None])
        s["metric_params"] = ([None, {}], ["p=1", 3, [1]] + FALSY_NON_DICT)
        s["ovo"] = ([True, False], ["yes", None])
    if name in ("RIM", "KernelRIM"):
        s["reg"] = ([0, 0.0, 0.1, 5, np.float64(0.5)], [-0.1, "0.1", None])
    if name == "KernelRIM":
        s["base_kernel"] = (["linear", "rbf", "poly", "laplacian", "cosine", "sigmoid", _cb], ["precomputed", "foo", None, 3])
        s["base_kernel_params"] = ([None, {}], ["gamma=1", 3] + FALSY_NON_DICT)
    if name in gen.MLP_LIKE:
        s["n_hidden_dim"] = ([1, 2, 7], [0, -2, 2.5, None, "4"])
    if name in gen.SPARSE:
        s["alpha"] = ([0, 0.0, 1e-3, 10, np.float64(0.1)], [-1e-3, "0.1", None])
        s["groups"] = ([None, [[0], [1, 2]], [[2, 0]]], ["abc", 3, [[0, 0]], [[0, 1], [1, 2]], [[0, 5]], [[-1, 0]]])
        if name != "SparseLinearMI":
            s["dynamic"] = ([True, False], ["yes", None])
    if name in ("SparseMLPModel", "SparseMLPMMD"):
        s["M"] = ([0, 0.5, 10, 1000.0], [-1, -1e-9, "10", None])
    if name == "Douglas":
        s["n_cuts"] = ([1, 2, 3], [0, -1, 1.5, "2"])
        s["temperature"] = ([1e-3, 0.1, 1, 100.0], [0, 0.0, -1, "hot", None])
        s["feature_mask"] = ([None, np.array([True, False, True]), np.array([False, True, False])],
                             [np.array([True, False]), np.array([True, False, True, True]), "mask", 3])
    return s


def base_params(name):
    if name == "Kauri":
        return {"max_clusters": 2, "random_state": 0}
    p = {"n_clusters": 2, "max_iter": 1, "random_state": 0}
    if name == "Douglas":
        p["n_cuts"] = 1
    if name in gen.MLP_LIKE:
        p["n_hidden_dim"] = 2
    return p


def cases(tier, seed):
    out = [{"kind": "estimator", "seed": seed, "name": n} for n in gen.ESTIMATORS]
    out += [{"kind": "geminis", "seed": seed}, {"kind": "functions", "seed": seed}, {"kind": "malformed", "seed": seed},
            {"kind": "unfitted", "seed": seed}, {"kind": "combos", "seed": seed}]
    out += [{"kind": "mlcl-sets", "seed": seed, "part": k} for k in range(2 if tier == "quick" else 20)]
    out += [{"kind": "groups", "seed": seed, "d": d, "ng": g} for d in (1, 2, 3, 4) for g in (1, 2, 3)]
    if tier == "thorough":
        out += [{"kind": "pairwise", "seed": seed, "name": n, "part": k} for n in gen.ESTIMATORS for k in range(4)]
    return out


class State(_train.Listener):
    def __init__(self, ctx):
        self.ctx = ctx
        self.tap = _train.TrainTap(ctx, self)
        self.steps = 0

    def step_before(self, model, opt, params, grads):
        self.steps += 1

    def close(self):
        self.tap.close()


def setup(ctx):
    return State(ctx)


def reach_targets(reach):
    import gemclus._constraints as c
    import gemclus.sparse._base_sparse as bs
    reach.add_function(c.check_constraint)
    reach.add_function(bs.check_groups)


def data_for(name, rng, n=9, d=3):
    X = gen.make_data(rng, n, d, "blobs")
    return X


def TWIN(v):
    """an equal value of another type: 1 for True, 3.0 for 3 (its own verdict is not judged, see the callers)"""
    return int(v) if isinstance(v, (bool, np.bool_)) else float(v)


def pname(v):
    if v is BAD_TYPE:
        return "<object>"
    if callable(v):
        return "<callable>"
    return repr(v)[:60]


def probe_fit(ctx, st, name, params, X, y, expect, what):
    """expect: 'accept' | 'reject'"""
    ctx.count("probes")
    ctx.distinct(name, what)
    st.steps = 0
    est = None
    try:
        pp = {k: (object() if v is BAD_TYPE else v) for k, v in params.items()}
        est = gen.get_class(name)(**pp)
        est.fit(X, y)
        outcome, exc = "accepted", None
    except (ValueError, TypeError) as e:
        outcome, exc = "rejected", e
    except Exception as e:
        outcome, exc = "other-exception", e
    if expect == "accept":
        if outcome == "accepted":
            ctx.count("accepted_ok")
        else:
            ctx.violation("in-domain-accepted", f"in-domain-value-rejected/{name}/{what.split('=')[0]}",
                          observed={"probe": what, "outcome": outcome, "exc": repr(exc)[:200]}, expected="fit succeeds")
        return
    if outcome == "accepted":
        ctx.violation("out-of-domain-rejected", f"out-of-domain-value-accepted/{name}/{what.split('=')[0]}",
                      observed={"probe": what}, expected="ValueError/TypeError")
        return
    if outcome == "other-exception":
        ctx.violation("out-of-domain-rejected", f"wrong-exception-family/{name}/{what.split('=')[0]}",
                      observed={"probe": what, "exc": repr(exc)[:200]}, expected="ValueError/TypeError family")
        return
    ctx.count("rejected_ok")
    # never trained on, no fitted model left behind
    if est is not None:
        ctx.count("rejected_state_checked")
        if st.steps != 0:
            ctx.violation("never-trained", f"trained-before-rejecting/{name}/{what.split('=')[0]}",
                          observed={"probe": what, "optimiser_steps": st.steps}, expected=0)
        if hasattr(est, "labels_"):
            ctx.violation("no-fitted-model", f"labels-left-after-rejection/{name}/{what.split('=')[0]}", observed={"probe": what}, expected="no labels_")
        try:
            Xq = X if isinstance(X, np.ndarray) and X.ndim == 2 and X.dtype.kind == "f" and np.all(np.isfinite(X)) and len(X) else np.zeros((2, 3))
            est.predict(Xq)
            ctx.violation("no-fitted-model", f"predict-works-after-rejection/{name}/{what.split('=')[0]}", observed={"probe": what},
                          expected="predict raises")
        except Exception:
            pass


def run_case(case, ctx, st):
    rng = gen.rng_for(case["seed"], ID, case["kind"], case.get("name"), case.get("d"), case.get("ng"), case.get("part"))
    if case["kind"] == "estimator":
        name = case["name"]
        X = data_for(name, rng)
        spec = spec_for(name)
        for par, (good, bad) in spec.items():
            for v in good:
                p = dict(base_params(name))
                p[par] = v
                y = None
                if isinstance(v, str) and v == "precomputed" and par in ("kernel", "metric"):
                    y = gen.sym_matrix(rng, len(X), "psd" if par == "kernel" else "dist")
                ctx.case = dict(case, param=par, probe=pname(v), expect="accept")
                probe_fit(ctx, st, name, p, X, y, "accept", f"{par}={pname(v)}")
            for v in bad:
                p = dict(base_params(name))
                p[par] = v
                ctx.case = dict(case, param=par, probe=pname(v), expect="reject")
                probe_fit(ctx, st, name, p, X, None, "reject", f"{par}={pname(v)}")
        # precomputed without a matrix is an error for GEMINI-based models
        if name in gen.MMD_VARIANTS or name in gen.WASS_VARIANTS:
            key = "kernel" if name in gen.MMD_VARIANTS else "metric"
            p = dict(base_params(name))
            p[key] = "precomputed"
            ctx.case = dict(case, param=key, probe="precomputed-without-matrix")
            probe_fit(ctx, st, name, p, X, None, "reject", f"{key}=precomputed-without-matrix")
    elif case["kind"] == "combos":
        X = gen.make_data(rng, 12, 3, "blobs")
        for leaf, split in itertools.product([1, 2, 3, 4], [2, 3, 4, 5, 6, 7, 8]):
            p = {"max_clusters": 2, "min_samples_leaf": leaf, "min_samples_split": split}
            ctx.case = dict(case, combo=p)
            probe_fit(ctx, st, "Kauri", p, X, None, "reject" if 2 * leaf > split else "accept", f"leaf={leaf},split={split}")
        for d, m in itertools.product([1, 2, 3, 4], [1, 2, 3, 4, 5]):
            Xd = gen.make_data(rng, 8, d, "blobs")
            p = {"n_clusters": 2, "max_iter": 1, "n_cuts": 1, "feature_mask": np.array([True] * m)}
            ctx.case = dict(case, combo={"d": d, "mask_len": m})
            probe_fit(ctx, st, "Douglas", p, Xd, None, "accept" if d == m else "reject", f"mask_len={m},d={d}")
    elif case["kind"] == "groups":
        d, ng = case["d"], case["ng"]
        X = gen.make_data(rng, 8, d, "blobs")
        vals = list(range(-1, d + 1))
        # every list of ng groups, each a tuple of 1..2 entries from -1..d (exhaustive for ng<=2; sampled for ng=3)
        singles = [list(t) for r in (1, 2) for t in itertools.product(vals, repeat=r)]
        combos = list(itertools.product(singles, repeat=ng))
        if len(combos) > 400:
            idx = rng.choice(len(combos), size=400, replace=False)
            combos = [combos[int(k)] for k in idx]
        names = ["SparseLinearModel", "SparseMLPModel"]
        for gi, groups in enumerate(combos):
            groups = [list(g) for g in groups]
            flat = [v for g in groups for v in g]
            valid = all(0 <= v < d for v in flat) and len(set(flat)) == len(flat)
            name = names[gi % 2]
            p = dict(base_params(name), groups=groups)
            ctx.case = dict(case, groups=groups)
            ctx.count("group_lists")
            probe_fit(ctx, st, name, p, X, None, "accept" if valid else "reject", f"groups={groups}")
    elif case["kind"] == "geminis":
        import gemclus.gemini as gg
        table = {
            "KLGEMINI": {"ovo": ([True, False], ["yes", None, 2, 1, 0]), "epsilon": ([1e-12, 1e-3, 0.5, 0.999], [0, 0.0, 1, 1.0, -1e-3, 1.5, "small", None])},
            "TVGEMINI": {"ovo": ([True, False], ["yes", None, 1, 0]), "epsilon": ([1e-12, 0.5], [0, 1, -1e-3, "small", None])},
            "HellingerGEMINI": {"ovo": ([True, False], ["yes", None, 1, 0]), "epsilon": ([1e-12, 0.5], [0, 1, 2.0, None])},
            "ChiSquareGEMINI": {"ovo": ([True, False], ["yes", None, 1, 0]), "epsilon": ([1e-12, 0.5], [0, 1, 2.0, None])},
            "MI": {"epsilon": ([1e-12, 0.5], [0, 1, -0.1, "x", None])},
            "MMDGEMINI": {"ovo": ([True, False], ["yes", None, 1, 0]), "kernel": (KERN_OK + ["chi2", "additive_chi2", _cb], ["gaussian", 3, None]),
                          "kernel_params": ([None, {}, {"gamma": 0.5}], ["gamma", 3] + FALSY_NON_DICT), "epsilon": ([1e-12, 0.5], [0, 1, None])},
            "WassersteinGEMINI": {"ovo": ([True, False], ["yes", None, 1, 0]), "metric": (METRIC_OK, ["minkowski3", "haversine", 5, None]),
                                  "metric_params": ([None, {}], ["p", 3] + FALSY_NON_DICT), "epsilon": ([1e-12, 0.5], [0, 1, None])},
        }
        for cname, spec in table.items():
            cls = getattr(gg, cname)
            for par, (good, bad) in spec.items():
                # in-domain values are probed again after the out-of-domain ones, each right after an equal value of another
                # type (True after 1, 3 after 3.0): the verdict on a value depends on the value, not on what was asked before
                again = []
                for v in good:
                    if isinstance(v, (bool, int, np.integer)):
                        again += [(TWIN(v), "twin"), (v, "accept")]
                for v, expect in [(v, "accept") for v in good] + [(v, "reject") for v in bad] + again:
                    if expect == "twin":
                        try:
                            cls(**{par: v})
                        except Exception:
                            pass
                        ctx.count("twin_probes")
                        continue
                    ctx.case = dict(case, cls=cname, param=par, probe=pname(v))
                    ctx.count("probes")
                    ctx.distinct(cname, par, pname(v))
                    try:
                        cls(**{par: v})
                        outcome = "accepted"
                    except (ValueError, TypeError):
                        outcome = "rejected"
                    except Exception as e:
                        outcome = "other:" + type(e).__name__
                    if (expect == "accept") != (outcome == "accepted") or outcome.startswith("other"):
                        ctx.violation("gemini-constructor", f"gemini-constructor-{'rejects-in-domain' if expect == 'accept' else 'accepts-out-of-domain'}/{cname}/{par}",
                                      observed={"probe": pname(v), "outcome": outcome}, expected=expect)
                    else:
                        ctx.count("accepted_ok" if expect == "accept" else "rejected_ok")
    elif case["kind"] == "functions":
        from gemclus.data import draw_gmm, multivariate_student_t, gstm, celeux_one, celeux_two
        from gemclus import add_mlcl_constraint
        from gemclus.linear import LinearModel
        loc, cov, pv = [[0.0, 0.0], [3.0, 3.0]], [np.eye(2), np.eye(2)], [0.5, 0.5]
        calls = [
            ("draw_gmm", lambda **k: draw_gmm(**dict(dict(n=10, loc=loc, scale=cov, pvals=pv, random_state=0), **k)),
             {"n": ([1, 5, np.int64(3)], [0, -1, 2.5, "10", None]), "random_state": ([0, None], [-1, "s"]),
              "pvals": ([[0.25, 0.75]], [[0.5, 0.6], [0.5, -0.5 + 1.0, 0.0][:2] if False else [1.5, -0.5], [0.5], [0.2, 0.3, 0.5], "ab"]),
              "loc": ([[[0.0, 1.0], [1.0, 0.0]]], [[[0.0, 1.0]], [[0.0], [1.0], [2.0]], "ab", 3]),
              "scale": ([[np.eye(2) * 2, np.eye(2)]], [[np.eye(2)], [np.eye(3), np.eye(3)], [np.array([[1.0, 0.0], [0.0, -1.0]]), np.eye(2)],
                                                        [np.zeros((2, 2)), np.eye(2)], "ab"])}),
            ("multivariate_student_t", lambda **k: multivariate_student_t(**dict(dict(n=10, loc=[0.0, 0.0], scale=np.eye(2), df=3, random_state=0), **k)),
             {"n": ([1, 7], [0, -1, 1.5, None]), "df": ([0.5, 1, 10.0], [0, -1, "3", None]),
              "scale": ([np.eye(2) * 2], [np.eye(3), np.ones((2, 3)), "ab"]), "loc": ([[1.0, 2.0]], [[1.0, 2.0, 3.0], "ab"])}),
            ("gstm", lambda **k: gstm(**dict(dict(n=20, alpha=2, df=1, random_state=0), **k)),
             {"n": ([4, 5, 100], [3, 0, -1, 4.5, None]), "alpha": ([0.1, 2, 5.0], [0, -1, "2", None]), "df": ([0.5, 1, 4], [0, -2, None])}),
            ("celeux_one", lambda **k: celeux_one(**dict(dict(n=20, p=3, mu=1.7, random_state=0), **k)),
             {"n": ([1, 20], [0, -1, 2.5, None]), "p": ([1, 5], [0, -1, 1.5, None]), "mu": ([0.1, 1.7], [0, -1.0, "1", None])}),
            ("celeux_two", lambda **k: celeux_two(**dict(dict(n=20, random_state=0), **k)),
             {"n": ([1, 20], [0, -1, 2.5, None]), "random_state": ([0, None], [-1, "s"])}),
            ("add_mlcl_constraint", lambda **k: add_mlcl_constraint(**dict(dict(gemini_model=LinearModel(), must_link=[(0, 1)], cannot_link=[(2, 3)], factor=1.0), **k)),
             {"factor": ([1e-3, 1, 10.0], [0, -1.0, "1", None]), "gemini_model": ([LinearModel()], [None, 3, "model", object()])}),
        ]
        for fname, fn, spec in calls:
            for par, (good, bad) in spec.items():
                again = []
                for v in good:
                    if isinstance(v, (bool, int, np.integer)):
                        again += [(TWIN(v), "twin"), (v, "accept")]
                for v, expect in [(v, "accept") for v in good] + [(v, "reject") for v in bad] + again:
                    if expect == "twin":
                        try:
                            fn(**{par: v})
                        except Exception:
                            pass
                        ctx.count("twin_probes")
                        continue
                    ctx.case = dict(case, function=fname, param=par, probe=pname(v))
                    ctx.count("probes")
                    ctx.distinct(fname, par, pname(v))
                    try:
                        fn(**{par: v})
                        outcome = "accepted"
                    except (ValueError, TypeError):
                        outcome = "rejected"
                    except Exception as e:
                        outcome = "other:" + type(e).__name__
                    if (expect == "accept") != (outcome == "accepted") or outcome.startswith("other"):
                        ctx.violation("validated-function", f"function-{'rejects-in-domain' if expect == 'accept' else 'accepts-out-of-domain'}/{fname}/{par}",
                                      observed={"probe": pname(v), "outcome": outcome}, expected=expect)
                    else:
                        ctx.count("accepted_ok" if expect == "accept" else "rejected_ok")
    elif case["kind"] == "mlcl-sets":
        # must_link / cannot_link are arguments of a validated function like any other: sets that contradict themselves
        # (a cannot-link pair inside a must-link component, a sample paired with itself) are outside its domain, and a
        # model handed back for them would be trained under them.  Random sets over 4..7 samples, ground truth by union-find.
        from gemclus import add_mlcl_constraint
        from gemclus.linear import LinearModel
        from .c14 import ref_valid
        for rep in range(400):
            m = int(rng.integers(4, 8))
            ids = [int(x) for x in rng.choice(60, size=m, replace=False)]
            allp = [(ids[a], ids[b]) for a in range(m) for b in range(m) if a != b]
            ml = [allp[int(x)] for x in rng.integers(0, len(allp), size=int(rng.integers(1, 6)))]
            cl = [allp[int(x)] for x in rng.integers(0, len(allp), size=int(rng.integers(1, 4)))]
            if rng.random() < 0.08:
                cl.append((ids[0], ids[0]))
            want = "accepted" if ref_valid(ml, cl) else "rejected"
            ctx.case = dict(case, must_link=ml, cannot_link=cl)
            ctx.count("probes")
            ctx.count("mlcl_sets_probed")
            ctx.distinct("mlcl-set", tuple(ml), tuple(cl))
            try:
                add_mlcl_constraint(LinearModel(), ml, cl, 1.0)
                outcome = "accepted"
            except (ValueError, TypeError):
                outcome = "rejected"
            except Exception as e:
                outcome = "other:" + type(e).__name__
            if outcome != want:
                ctx.violation("validated-function", f"function-{'rejects-in-domain' if want == 'accepted' else 'accepts-out-of-domain'}/add_mlcl_constraint/constraint-set",
                              observed={"must_link": ml, "cannot_link": cl, "outcome": outcome}, expected=want)
            else:
                ctx.count("accepted_ok" if want == "accepted" else "rejected_ok")
    elif case["kind"] == "malformed":
        good = gen.make_data(rng, 9, 3, "blobs")
        bads = {"nan": np.where(np.arange(27).reshape(9, 3) == 4, np.nan, good), "inf": np.where(np.arange(27).reshape(9, 3) == 5, np.inf, good),
                "neg-inf": np.where(np.arange(27).reshape(9, 3) == 7, -np.inf, good), "strings": np.array([["a", "b", "c"]] * 9, dtype=object),
                "1-D": good[:, 0], "3-D": good.reshape(3, 3, 3), "empty": np.zeros((0, 3)), "no-features": np.zeros((9, 0)),
                "scalar": 3.0, "none": None, "too-few-samples": good[:3]}
        for name in gen.ESTIMATORS:
            for tag, Xb in bads.items():
                p = dict(base_params(name))
                if tag == "too-few-samples":
                    if name == "Kauri":
                        p.update(min_samples_leaf=4, min_samples_split=8)
                    else:
                        p["n_clusters"] = 4
                ctx.case = dict(case, estimator=name, data=tag)
                probe_fit(ctx, st, name, p, Xb, None, "reject", f"data={tag}")
                ctx.count("malformed_rejected")
    elif case["kind"] == "unfitted":
        from gemclus.tree import print_kauri_tree, Kauri
        Xq = gen.make_data(rng, 5, 3, "blobs")
        for name in gen.ESTIMATORS:
            est = gen.get_class(name)(**base_params(name))
            for meth in ("predict", "predict_proba", "score"):
                if not hasattr(est, meth):
                    continue
                ctx.case = dict(case, estimator=name, method=meth)
                ctx.count("probes")
                ctx.distinct(name, meth, "unfitted")
                try:
                    getattr(est, meth)(Xq)
                    ctx.violation("unfitted", f"unfitted-{meth}-returns/{name}", observed="returned", expected="raises")
                except Exception:
                    ctx.count("unfitted_refused")
        for obj in (Kauri(), None, "tree", gen.get_class("LinearModel")()):
            ctx.count("probes")
            try:
                with contextlib.redirect_stdout(io.StringIO()):
                    print_kauri_tree(obj)
                ctx.violation("unfitted", "print-accepts-unfitted-or-foreign", observed=repr(obj)[:60], expected="raises")
            except Exception:
                ctx.count("unfitted_refused")
    elif case["kind"] == "pairwise":
        name = case["name"]
        X = data_for(name, rng)
        spec = spec_for(name)
        pars = sorted(spec)
        pairs = [(a, b) for a in pars for b in pars if a < b]
        pairs = [pq for k, pq in enumerate(pairs) if k % 4 == case["part"]]
        for a, b in pairs:
            for va, ga in [(v, True) for v in spec[a][0][:2]] + [(v, False) for v in spec[a][1][:2]]:
                for vb, gb in [(v, True) for v in spec[b][0][:2]] + [(v, False) for v in spec[b][1][:1]]:
                    bad = not (ga and gb)
                    p = dict(base_params(name))
                    p[a], p[b] = va, vb
                    if (a in ("kernel", "metric") and isinstance(va, str) and va == "precomputed") or \
                            (b in ("kernel", "metric") and isinstance(vb, str) and vb == "precomputed"):
                        continue
                    if name == "Kauri" and not bad and 2 * p.get("min_samples_leaf", 1) > p.get("min_samples_split", 2):
                        bad = True
                    ctx.case = dict(case, a=a, va=pname(va), b=b, vb=pname(vb))
                    probe_fit(ctx, st, name, p, X, None, "reject" if bad else "accept", f"{a}={pname(va)}&{b}={pname(vb)}")
