"""C04 - fit succeeds on every valid configuration and yields a coherent model (public-API post-fit contract)."""
import traceback

import numpy as np

from .. import gen
from ..refs.gemini import ref_gemini

ID = "C04"
RULE = ("random valid configurations (documented domains) of the 18 estimators: GEMINI names / None / parameterised "
        "instances, solvers, batch sizes 1..n, n+3, None, OvA/OvO, kernels / metrics with parameters, callables, "
        "precomputed matrices, group structures, n_cuts / temperature / masks, tree limits; n_clusters 1..min(n,6) "
        "incl. n_clusters=n; X as float array, int array, nested list; n from n_clusters to 40, d 1..6. Post-fit contract "
        "through the public API only. One evaluation = one fit. Non-trivial = fit returned and every clause was "
        "evaluated; distinct by (estimator, parameters, data hash).")
ASSUMPTIONS = ["score(X) is compared with the naive reference GEMINI of predict_proba(X) for n<=14 (LP for Wasserstein) "
               "and with an independent sklearn evaluation of the affinity; for larger n the documented objective class "
               "is instantiated directly",
               "values whose legality the documentation leaves open (Douglas n_cuts=None, all-False feature_mask, bools "
               "for ints) are not generated"]
EVAL_COUNTER = "fits"
REQUIRED = {"quick": dict({"fits": 500, "contracts_complete": 450, "score_vs_reference": 150, "list_input": 40,
                           "int_input": 40, "float32_input": 40, "fortran_input": 40, "strided_input": 40, "readonly_input": 40, "k_equals_one": 15, "k_equals_n": 10, "douglas_long_fits": 50, "score_after_inplace_refresh_checked": 40,
                           "douglas_long_cut_points_out_of_order": 8},
                          **{"fit:" + e: 12 for e in gen.ESTIMATORS}),
            "thorough": dict({"fits": 10000, "contracts_complete": 9000}, **{"fit:" + e: 300 for e in gen.ESTIMATORS})}
SHARD_TIMEOUT = {"quick": 1200, "thorough": 7000}


def cases(tier, seed):
    n = 640 if tier == "quick" else 12000
    m = 64 if tier == "quick" else 1200
    return [{"kind": "fit", "seed": seed, "i": i} for i in range(n)] + [{"kind": "douglas-long", "seed": seed, "i": i} for i in range(m)]


def setup(ctx):
    return None


def reach_targets(reach):
    from gemclus._base_gemini import DiscriminativeModel
    reach.add_class(DiscriminativeModel, {"fit", "fit_predict", "predict", "predict_proba", "score", "get_gemini"})
    from gemclus.tree.kauri import Kauri
    reach.add_class(Kauri, {"fit", "fit_predict", "predict", "score", "_compute_kernel"})
    reach.add_class(gen.get_class("KernelRIM"), {"fit", "predict_proba", "_compute_kernel"})
    reach.add_class(gen.get_class("SparseLinearModel"), {"fit"})
    reach.add_class(gen.get_class("SparseMLPModel"), {"fit"})


def where(exc):
    for fr in reversed(traceback.extract_tb(exc.__traceback__)):
        if "/gemclus/" in fr.filename:
            return fr.name
    return "outside-gemclus"


def run_douglas_long(case, ctx):
    """Douglas trained long enough, with several cut points per feature and large steps, for the cut points of one
    feature to overtake each other: the fitted model must still be one model (labels_ = predict on the training data)."""
    i = case["i"]
    rng = gen.rng_for(case["seed"], ID, "douglas-long", i)
    n, d, K = int(rng.integers(40, 200)), int(rng.integers(1, 3)), int(rng.integers(2, 5))
    X = gen.make_data(rng, n, d, "blobs", centers=K)
    X = (X - X.mean(0)) / np.where(X.std(0) > 0, X.std(0), 1.0)
    names = ["mmd_ova", "kl_ova", "tv_ovo", "hellinger_ova", "mmd_ovo", "chi2_ova"] + (["wasserstein_ova"] if n < 70 else [])
    params = {"n_clusters": K, "n_cuts": int(rng.integers(2, 5)), "gemini": names[int(rng.integers(0, len(names)))],
              "max_iter": int(rng.integers(50, 200)), "learning_rate": float(10 ** rng.uniform(-1.5, -0.5)),
              "temperature": float(10 ** rng.uniform(-1, 0)), "random_state": gen.subseed(rng) % 100000,
              "solver": ["adam", "adam", "sgd"][int(rng.integers(0, 3))]}
    ctx.case = dict(case, estimator="Douglas", params=params, n=n, d=d)
    ctx.count("douglas_long_fits")
    est = gen.build_estimator("Douglas", params)
    try:
        est.fit(X)
        labels = np.asarray(est.labels_)
        P = np.asarray(est.predict_proba(X))
        pred = np.asarray(est.predict(X))
    except Exception as e:
        ctx.violation("fit-succeeds", f"fit-raises/Douglas/{type(e).__name__}@{where(e)}/array",
                      observed={"exc": repr(e)[:300], "params": params, "n": n, "d": d}, expected="fit returns")
        return
    if not np.all(np.isfinite(P)):
        ctx.count("douglas_long_nonfinite")        # divergence under large steps: C17's business
        return
    if any(np.any(np.diff(np.asarray(c, dtype=float).ravel()) < 0) for _, c in est.cut_points_list_):
        ctx.count("douglas_long_cut_points_out_of_order")
    bad = []
    if not (labels.shape == (n,) and labels.min() >= 0 and labels.max() < K):
        bad.append(("labels-range", [int(labels.min()), int(labels.max()), K]))
    if not np.array_equal(pred, labels):
        bad.append(("predict-train-differs-from-labels", {"n_diff": int(np.sum(pred != labels)), "n": n}))
    if not (P.shape == (n, K) and np.all(P >= 0) and np.all(np.abs(P.sum(1) - 1) <= 1e-9)):
        bad.append(("proba-rows-not-normalised", None))
    elif not np.array_equal(pred, P.argmax(1)):
        bad.append(("predict-not-argmax", None))
    ctx.count("contracts_complete")
    ctx.distinct("Douglas-long", params, X.tobytes().hex()[:48])
    for what, obs in bad[:2]:
        ctx.violation("post-fit-contract", f"{what}/Douglas", observed={"detail": obs, "params": params, "n": n}, expected=what)


def run_case(case, ctx, st):
    if case.get("kind") == "douglas-long":
        return run_douglas_long(case, ctx)
    i = case["i"]
    rng = gen.rng_for(case["seed"], ID, "fit", i)
    names = list(gen.ESTIMATORS)
    name = names[i % len(names)]
    d = int(rng.integers(1, 7))
    if name == "Douglas":
        d = int(rng.integers(1, 5))
    r = rng.random()
    n = int(rng.integers(4, 41)) if r < 0.8 else int(rng.integers(1, 7))
    kr = rng.random()
    K = 1 if kr < 0.06 else (n if (kr < 0.12 and n <= 8) else int(rng.integers(2, min(6, n) + 1)) if n >= 2 else 1)
    nonneg = bool(rng.random() < 0.15)
    kind = "nonneg" if nonneg else ["blobs", "ties", "duprows"][int(rng.integers(0, 3))]
    X = gen.make_data(rng, n, d, kind)
    params, pre = gen.random_config(rng, name, n, d, K=K, nonneg=nonneg)
    if name == "Kauri":
        K = params["max_clusters"]
        if n < params["min_samples_leaf"]:
            n = params["min_samples_leaf"] + int(rng.integers(0, 5))
            X = gen.make_data(rng, n, d, kind)
    y = gen.precomputed_for(rng, pre, n)
    form = ["float", "float", "int", "list", "float32", "fortran", "strided", "readonly"][int(rng.integers(0, 8))]
    Xin = X
    if form == "float32":
        # single-precision training data (what most loaders and every GPU pipeline hand over): exactly representable in
        # double precision, so the reference works on the very same numbers
        Xin = X.astype(np.float32)
        X = Xin.astype(np.float64)
    elif form == "readonly" and any("chi2" in str(v) for v in params.values()):
        # scikit-learn's own chi2 / additive_chi2 kernels refuse read-only buffers (sklearn 1.9.1: "buffer source array is
        # read-only" from chi2_kernel itself): not a configuration the library could serve
        form = "float"
    elif form == "readonly":
        # what joblib's memory-mapping hands to a worker: the caller's buffers cannot be written to
        Xin = np.array(X, copy=True)
        Xin.flags.writeable = False
        if y is not None:
            y = np.array(y, copy=True)
            y.flags.writeable = False
    elif form == "fortran":
        Xin = np.asfortranarray(X)
    elif form == "strided":
        big = np.empty((2 * n, d + 1))
        big[::2, :d] = X
        big[1::2] = 1e300
        big[:, d] = -1e300
        Xin = big[::2, :d]
    if form == "int":
        X = np.round(X * 3)
        Xin = X.astype(np.int64)
    elif form == "list":
        Xin = X.tolist()
    if nonneg and form == "int":
        X = np.abs(X)
        Xin = X.astype(np.int64)
    ctx.case = dict(case, estimator=name, params=params, n=n, d=d, data=kind, form=form, pre=pre)
    ctx.count("fits")
    ctx.count("fit:" + name)
    if form == "list":
        ctx.count("list_input")
    if form == "int":
        ctx.count("int_input")
    if form in ("float32", "fortran", "strided", "readonly"):
        ctx.count(form + "_input")
    if K == 1:
        ctx.count("k_equals_one")
    if K == n:
        ctx.count("k_equals_n")
    est = gen.build_estimator(name, params)
    try:
        out = est.fit(Xin, y)
    except Exception as e:
        ctx.violation("fit-succeeds", f"fit-raises/{name}/{type(e).__name__}@{where(e)}/{form if form == 'list' else 'array'}",
                      observed={"exc": repr(e)[:300], "estimator": name, "params": params, "n": n, "d": d, "form": form},
                      expected="fit returns")
        return
    bad = []

    def need(cond, what, obs=None):
        if not cond:
            bad.append((what, obs))

    def mmd_slack(dist_, ovo_, P_, A_):
        """an MMD that is the square root of round-off (every row predicted alike: all features switched off by a strong
        penalty) moves by sqrt(eps * |kernel|) between two evaluations whose kernels differ in the last bit"""
        if dist_ != "mmd" or A_ is None:
            return 0.0
        from . import _gem

        class _Gm:
            pass
        gm = _Gm()
        gm.ovo = ovo_
        t = 2 * _gem.mmd_tolerance(gm, np.clip(np.asarray(P_, dtype=float), 1e-12, 1.0), np.asarray(A_, dtype=float))
        return float(t) if np.isfinite(t) else 0.0

    def slack32(dist_, ovo_, P_, A_, val_):
        """score(X) given single-precision data: scikit-learn evaluates the kernel / metric in single precision, so the
        affinity (hence the score) carries float32 round-off - relative 1e-5 of the affinity's magnitude, amplified by the
        square root for a near-zero MMD.  Zero for every other input form."""
        if form not in ("float32", "fortran", "strided") or A_ is None:
            return 0.0
        # Fortran-ordered / strided data: BLAS sums in another order, and scikit-learn's euclidean distances (computed as
        # sqrt(x.x - 2 x.y + y.y)) carry that round-off amplified by cancellation - 1e-7 of the affinity's magnitude
        rel_ = 1e-5 if form == "float32" else 1e-7
        A_ = np.asarray(A_, dtype=float)
        t = rel_ * max(1.0, abs(val_), float(np.max(np.abs(A_))) if A_.size else 0.0)
        if dist_ == "mmd":
            from . import _gem

            class _G32:
                pass
            g32 = _G32()
            g32.ovo = ovo_
            t += _gem.mmd_tolerance(g32, P_, A_, rel=rel_)
        return t

    try:
        need(out is est, "fit-returns-self")
        labels = np.asarray(est.labels_)
        need(labels.shape == (n,), "labels-shape", list(labels.shape))
        need(np.issubdtype(labels.dtype, np.integer), "labels-dtype", str(labels.dtype))
        need(labels.size == 0 or (labels.min() >= 0 and labels.max() < K), "labels-range",
             [int(labels.min()), int(labels.max()), K])
        pred = np.asarray(est.predict(Xin))
        need(np.array_equal(pred, labels), "predict-train-differs-from-labels", {"predict": pred, "labels_": labels})
        if name == "Kauri":
            need(hasattr(est, "tree_"), "no-tree")
            est2 = gen.build_estimator(name, params)
            fp = est2.fit_predict(Xin, y)
            need(np.array_equal(np.asarray(fp), np.asarray(est2.labels_)), "fit_predict-differs-from-labels")
            need(np.array_equal(np.asarray(fp), labels), "fit_predict-differs-from-fit", {"fit_predict": fp, "labels_": labels})
            sc = est.score(Xin, y)
            need(np.isfinite(sc), "score-not-finite", sc)
        else:
            P = np.asarray(est.predict_proba(Xin))
            need(P.shape == (n, K), "proba-shape", list(P.shape))
            need(bool(np.all(np.isfinite(P))), "proba-not-finite")
            if P.shape == (n, K) and np.all(np.isfinite(P)):
                need(bool(np.all(P >= 0)), "proba-negative")
                need(bool(np.all(np.abs(P.sum(1) - 1) <= 1e-9)), "proba-rows-not-normalised", P.sum(1))
                need(np.array_equal(pred, P.argmax(1)), "predict-not-argmax", {"predict": pred, "argmax": P.argmax(1)})
            need(est.n_iter_ == params["max_iter"], "n_iter", est.n_iter_)
            want_opt = "SGDOptimizer" if params["solver"] == "sgd" else "AdamOptimizer"
            need(type(est.optimiser_).__name__ == want_opt, "optimiser-class", type(est.optimiser_).__name__)
            if want_opt == "AdamOptimizer":
                # the optimiser's own step counter reflects max_iter epochs of ceil(n / batch_size) steps
                bsz = params.get("batch_size")
                nb = 1 if (bsz is None or name in gen.NONPARAMETRIC) else -(-n // bsz)
                need(est.optimiser_.t == params["max_iter"] * nb, "optimiser-step-count",
                     {"t": est.optimiser_.t, "expected": params["max_iter"] * nb})
            sc = est.score(Xin, y)
            need(isinstance(sc, float), "score-type", type(sc).__name__)
            # score == documented GEMINI of predict_proba(X) with the affinity the parameters describe
            dist, ovo, spec = gen.expected_objective(name, params)
            A = gen.expected_affinity(spec, Xin if form in ("fortran", "strided") else X, y)   # same memory layout as the model saw
            # the clipping bound is part of the GEMINI object the parameters describe
            eps = float(params["gemini"].get("epsilon", 1e-12)) if isinstance(params.get("gemini"), dict) else 1e-12
            if np.all(np.isfinite(P)) and P.shape == (n, K):
                interior = bool(np.all(P > eps) and np.all(P < 1 - eps))
                ref = None
                if n <= 14 and interior and K >= 2:
                    try:
                        ref = ref_gemini(dist, ovo, P, A)
                    except RuntimeError:
                        ctx.count("reference_lp_failed")     # HiGHS gave up on a degenerate transport LP: fall back below
                if ref is not None:
                    tol = 1e-7 * max(1.0, abs(ref), float(np.max(np.abs(A))) if A is not None else 0.0)
                    if dist == "mmd":
                        from . import _gem
                        class _G:  # noqa: E306
                            pass
                        g_ = _G()
                        g_.ovo = ovo
                        tol += _gem.mmd_tolerance(g_, P, np.asarray(A, dtype=float))
                    ctx.count("score_vs_reference")
                    need(abs(sc - ref) <= tol + slack32(dist, ovo, P, A, ref), "score-differs-from-reference-gemini", {"score": sc, "reference": ref})
                else:
                    import gemclus.gemini as gg
                    cls = {"kl": gg.KLGEMINI, "tv": gg.TVGEMINI, "hellinger": gg.HellingerGEMINI,
                           "chi2": gg.ChiSquareGEMINI, "mmd": gg.MMDGEMINI, "wasserstein": gg.WassersteinGEMINI}[dist]
                    if dist == "mmd":
                        obj = cls(ovo=ovo, kernel="precomputed", epsilon=eps)
                    elif dist == "wasserstein":
                        obj = cls(ovo=ovo, metric="precomputed", epsilon=eps)
                    else:
                        obj = cls(ovo=ovo, epsilon=eps)
                    if not (dist == "tv" and ovo and K == 1):
                        val = float(np.asarray(obj(P, A)).reshape(-1)[0])
                        ctx.count("score_vs_documented_class")
                        need(abs(sc - val) <= 1e-9 * max(1.0, abs(val)) + slack32(dist, ovo, P, A, val) + mmd_slack(dist, ovo, P, A), "score-differs-from-documented-gemini",
                             {"score": sc, "expected": val})
            fp = gen.build_estimator(name, params).fit_predict(Xin, y)
            need(np.array_equal(np.asarray(fp), labels), "fit_predict-differs-from-fit", {"fit_predict": fp, "labels_": labels})
            # the same on data the model has not seen (inductive estimators, affinities that can be recomputed)
            if name not in gen.NONPARAMETRIC and pre is None:
                m2 = int(rng.integers(max(2, K), 20))
                X2 = gen.make_data(rng, m2, d, kind)
                if form == "int":
                    X2 = np.abs(np.round(X2 * 3)) if nonneg else np.round(X2 * 3)
                P2 = np.asarray(est.predict_proba(X2))
                need(P2.shape == (m2, K) and bool(np.all(np.isfinite(P2))) and bool(np.all(np.abs(P2.sum(1) - 1) <= 1e-9)),
                     "proba-fresh-data-not-probabilities", list(P2.shape))
                need(np.array_equal(np.asarray(est.predict(X2)), P2.argmax(1)), "predict-fresh-not-argmax")
                if np.all(np.isfinite(P2)) and not (dist == "tv" and ovo and K == 1):
                    import gemclus.gemini as gg
                    cls2 = {"kl": gg.KLGEMINI, "tv": gg.TVGEMINI, "hellinger": gg.HellingerGEMINI,
                            "chi2": gg.ChiSquareGEMINI, "mmd": gg.MMDGEMINI, "wasserstein": gg.WassersteinGEMINI}[dist]
                    obj2 = cls2(ovo=ovo, kernel="precomputed", epsilon=eps) if dist == "mmd" else (
                        cls2(ovo=ovo, metric="precomputed", epsilon=eps) if dist == "wasserstein" else cls2(ovo=ovo, epsilon=eps))
                    A2 = gen.expected_affinity(spec, X2, None)
                    val2 = float(np.asarray(obj2(P2, A2)).reshape(-1)[0])
                    sc2 = est.score(X2)
                    ctx.count("score_fresh_data_checked")
                    need(abs(sc2 - val2) <= 1e-9 * max(1.0, abs(val2)) + mmd_slack(dist, ovo, P2, A2), "score-fresh-data-differs-from-documented-gemini",
                         {"score": sc2, "expected": val2})
        # the array the model was fitted on, refreshed in place (a reused buffer): score speaks about the data it is
        # given now
        if name != "Kauri" and name not in gen.NONPARAMETRIC and pre is None and form == "float" and Xin is X and n >= 2 \
                and not (dist == "tv" and ovo and K == 1):
            import gemclus.gemini as gg
            X[:] = gen.make_data(rng, n, d, kind) * float(rng.uniform(0.5, 1.5))
            P3 = np.asarray(est.predict_proba(np.array(X, copy=True)))
            if np.all(np.isfinite(P3)):
                cls3 = {"kl": gg.KLGEMINI, "tv": gg.TVGEMINI, "hellinger": gg.HellingerGEMINI,
                        "chi2": gg.ChiSquareGEMINI, "mmd": gg.MMDGEMINI, "wasserstein": gg.WassersteinGEMINI}[dist]
                obj3 = cls3(ovo=ovo, kernel="precomputed", epsilon=eps) if dist == "mmd" else (
                    cls3(ovo=ovo, metric="precomputed", epsilon=eps) if dist == "wasserstein" else cls3(ovo=ovo, epsilon=eps))
                val3 = float(np.asarray(obj3(P3, gen.expected_affinity(spec, np.array(X, copy=True), None))).reshape(-1)[0])
                sc3 = est.score(X)
                ctx.count("score_after_inplace_refresh_checked")
                need(abs(sc3 - val3) <= 1e-9 * max(1.0, abs(val3)) + mmd_slack(dist, ovo, P3, gen.expected_affinity(spec, np.array(X, copy=True), None)), "score-after-inplace-refresh-differs-from-documented-gemini",
                     {"score": sc3, "expected": val3})
    except Exception as e:
        ctx.violation("post-fit-api", f"post-fit-call-raises/{name}/{type(e).__name__}@{where(e)}",
                      observed={"exc": repr(e)[:300], "estimator": name, "params": params, "form": form},
                      expected="coherent model")
        return
    ctx.count("contracts_complete")
    ctx.distinct(name, params, X.tobytes().hex()[:48], form)
    ctx.sample({"estimator": name, "params": params, "n": n, "d": d, "form": form, "labels": labels[:10]})
    # the one recorded mechanism behind non-finite models (finding of C17, same classifier): plain gradient descent on the
    # quadratic penalty of RIM / KernelRIM with a step beyond the stability limit lr * 2 * reg * lambda_max > 2
    diverging_quadratic = False
    if bad and name in ("RIM", "KernelRIM") and params.get("solver") == "sgd" and params.get("reg", 0) > 0 \
            and any("finite" in w or "probabilit" in w for w, _ in bad):
        lam = 1.0
        if name == "KernelRIM":
            from sklearn.metrics import pairwise_kernels
            bk, bp = params.get("base_kernel", "linear"), params.get("base_kernel_params") or {}
            Kt = gen.CALLABLES[bk["callable"]](X, X) if isinstance(bk, dict) else pairwise_kernels(X, X, metric=bk, **bp)
            lam = float(np.max(np.abs(np.linalg.eigvalsh((Kt + Kt.T) / 2))))
        diverging_quadratic = params["learning_rate"] * 2 * params["reg"] * lam > 2
    if diverging_quadratic:
        ctx.violation("post-fit-contract", "sgd-step-beyond-stability-of-l2-penalty",
                      observed={"what": [w for w, _ in bad[:3]], "estimator": name, "params": params, "n": n}, expected="finite model")
        return
    for what, obs in bad[:3]:
        ctx.violation("post-fit-contract", f"{what}/{name}", observed={"detail": obs, "params": params, "n": n, "form": form},
                      expected=what)
