"""C17 - results stay finite on degenerate and badly scaled but legal inputs."""
import warnings

import numpy as np

from .. import gen
from . import _train

ID = "C17"
NATIVE = True
RULE = ("every estimator x GEMINI names x degenerate family: feature scale 1e-3 / 30 / 100 / 1000, constant column, "
        "duplicated column, duplicated rows, n_clusters = n, n_clusters = 1, batch_size = 1, saturation (large learning "
        "rate, many epochs), low Douglas temperature; thorough tier combines two families; fit (+ path for sparse models), "
        "then predict_proba, score on training and fresh data. Monitors: optimiser-step hook (all parameters finite after "
        "every step, first offending step and array recorded), post-call finiteness of weights, probabilities, scores, "
        "path histories; plus direct calls of the 13 objectives on one-hot predictions given as float64 / float32 / int64 / bool matrices (finite, and equal to the float64 score). One evaluation = one fit/path. Non-trivial = ran to the end and every monitor evaluated; distinct "
        "by (estimator, family, parameters).")
ASSUMPTIONS = ["only the families the property lists are generated; kernels undefined for the data (chi2 on negative values) "
               "are not used"]
EVAL_COUNTER = "runs"
FAMILIES = ["scale1e-3", "scale30", "scale100", "scale1000", "constcol", "dupcol", "duprows", "k_eq_n", "k_eq_1", "batch1",
            "saturation", "lowtemp"]
REQUIRED = {"quick": dict({"runs": 700, "runs_complete": 650, "steps_checked": 5000, "paths": 40, "onehot_calls": 1200},
                          **{"family:" + f: 25 for f in FAMILIES}),
            "thorough": dict({"runs": 15000}, **{"family:" + f: 500 for f in FAMILIES})}
SHARD_TIMEOUT = {"quick": 1200, "thorough": 7000}


def cases(tier, seed):
    n = 900 if tier == "quick" else 18000
    m = 48 if tier == "quick" else 600
    return [{"kind": "run", "seed": seed, "i": i, "tier": tier} for i in range(n)] + \
           [{"kind": "onehot", "seed": seed, "i": i, "tier": tier} for i in range(m)]


class State(_train.Listener):
    def __init__(self, ctx):
        self.ctx = ctx
        self.tap = _train.TrainTap(ctx, self)
        self.model = None
        self.first_bad = None
        self.steps = 0
        self.bad_val = None
        # every validation score the path computes (they decide its stopping and its best weights): a nan there, while the
        # weights are finite, is a nan "produced and then silently turned into" an aborted path
        from ..attach import Patcher
        import gemclus.sparse._base_sparse as bs
        self.patcher = Patcher()
        orig = bs.compute_val_score
        st = self

        def compute_val_score(clf, X, y, batch_size, gemini_objective):
            res = orig(clf, X, y, batch_size, gemini_objective)
            if clf is st.model:
                st.ctx.count("validation_scores_checked")
                if st.bad_val is None and not bool(np.all(np.isfinite(np.asarray(res, dtype=float)))) \
                        and all(bool(np.all(np.isfinite(w))) for w in clf._get_weights()):
                    st.bad_val = {"score": repr(res)[:60], "batch_size": batch_size, "n": len(X)}
            return res
        compute_val_score.__wrapped__ = orig
        self.patcher.rebind(orig, compute_val_score)

    def close(self):
        self.patcher.restore()
        self.tap.close()

    def step_after(self, model, opt, params, grads):
        if model is not self.model:
            return
        self.steps += 1
        self.ctx.count("steps_checked")
        if self.first_bad is None:
            for j, p in enumerate(params):
                if not np.all(np.isfinite(p)):
                    gbad = [jj for jj, g in enumerate(grads) if not np.all(np.isfinite(g))]
                    self.first_bad = {"step": self.steps, "param": j, "nonfinite_gradients": gbad}
                    break


def setup(ctx):
    return State(ctx)


def reach_targets(reach):
    from gemclus.tree import Douglas
    reach.add_class(Douglas, {"_compute_grads", "_leaf_binning"})


def apply_family(rng, fam, X, params, name):
    n, d = X.shape
    if fam.startswith("scale"):
        X = X / 3.0 * float(fam[5:])
    elif fam == "constcol":
        X[:, int(rng.integers(0, d))] = float(rng.choice([0.0, 1.5, -200.0]))
        if name in gen.SPARSE and rng.random() < 0.6:
            # an all-zero column never receives a gradient: with a real penalty and enough steps its weights are shrunk to
            # exactly zero and stay there - the proximal step then works on an exactly-zero row at every later step
            X[:, int(rng.integers(0, d))] = 0.0
            params.update(alpha=float(rng.choice([5.0, 50.0])), learning_rate=float(rng.choice([1e-2, 5e-2])),
                          max_iter=int(rng.integers(80, 220)), batch_size=None)
    elif fam == "dupcol":
        if d >= 2:
            X[:, d - 1] = X[:, 0]
        else:
            X = np.hstack([X, X])
    elif fam == "duprows":
        X[: n // 2] = X[n // 2: n // 2 + n // 2]
        if rng.random() < 0.3:
            X[:] = X[0]
    elif fam == "k_eq_n":
        k = min(n, 6)
        X = X[:k]
        params["n_clusters" if name != "Kauri" else "max_clusters"] = k
        if params.get("batch_size") is not None:
            params["batch_size"] = min(params["batch_size"], k)
    elif fam == "k_eq_1":
        params["n_clusters" if name != "Kauri" else "max_clusters"] = 1
    elif fam == "batch1":
        if name not in gen.NONPARAMETRIC and name != "Kauri":
            params["batch_size"] = 1
    elif fam == "saturation":
        if name != "Kauri":
            params["learning_rate"] = float(rng.choice([1.0, 5.0, 30.0]))
            params["max_iter"] = int(rng.integers(10, 40))
            params["solver"] = "sgd" if rng.random() < 0.6 else "adam"
        X = X * 5.0
    elif fam == "lowtemp":
        if name == "Douglas":
            params["temperature"] = float(rng.choice([1e-3, 1e-2, 0.03]))
        else:
            X = X * 200.0
    return np.ascontiguousarray(X), params


def run_onehot(case, ctx):
    """Saturated predictions handed straight to the 13 objectives: one-hot rows as float, integer and boolean matrices
    (hard labels are naturally integer / boolean), with empty clusters, a single occupied cluster, duplicated rows.
    Score and gradient are finite, and the integer / boolean matrices give the float matrix' score."""
    from gemclus.gemini._utils import _str_to_gemini
    from sklearn.metrics import pairwise_kernels, pairwise_distances
    i = case["i"]
    rng = gen.rng_for(case["seed"], ID, "onehot", i)
    n, K, d = int(rng.integers(1, 16)), int(rng.integers(1, 7)), int(rng.integers(1, 4))
    X = gen.make_data(rng, n, d, "blobs")
    lab = rng.integers(0, K, size=n)
    shape = int(rng.integers(0, 4))
    if shape == 1:
        lab[:] = lab[0]                       # one occupied cluster
    elif shape == 2 and K >= 2:
        lab = lab % (K - 1)                   # the last cluster is empty
    P = np.zeros((n, K))
    P[np.arange(n), lab] = 1.0
    ctx.case = dict(case, n=n, K=K, shape=shape)
    for name in gen.GEMINI_NAMES:
        gem = _str_to_gemini(name)
        A = pairwise_kernels(X, metric="linear") if name.startswith("mmd") else (pairwise_distances(X) if name.startswith("wasserstein") else None)
        if name == "tv_ovo" and K == 1:
            continue
        vals = {}
        for dt in (float, np.int64, bool, np.float32):
            ctx.count("onehot_calls")
            try:
                v, g = gem(P.astype(dt), A, return_grad=True)
            except Exception as e:
                ctx.violation("finite", f"onehot-call-raises/{name}/{np.dtype(dt).name}/{type(e).__name__}", observed=repr(e)[:200], expected="finite score")
                break
            v = float(np.asarray(v).reshape(-1)[0])
            vals[np.dtype(dt).name] = v
            if not np.isfinite(v) or not np.all(np.isfinite(np.asarray(g, dtype=float))):
                ctx.violation("finite", f"nonfinite-on-onehot-predictions/{name}/{np.dtype(dt).name}",
                              observed={"score": v, "grad_finite": bool(np.all(np.isfinite(np.asarray(g, dtype=float)))), "P": P.astype(int)}, expected="finite")
                break
        else:
            ref_v = vals["float64"]
            for k, v in vals.items():
                tol = (1e-5 if k == "float32" else 1e-9) * max(1.0, abs(ref_v))
                if abs(v - ref_v) > tol:
                    ctx.violation("finite", f"onehot-score-silently-degenerate/{name}/{k}", observed={"score": v, "P": P.astype(int)},
                                  expected={"score_for_float64_matrix": ref_v})
                    break
    ctx.count("onehot_cases")
    ctx.distinct("onehot", n, K, tuple(int(x) for x in lab))


def run_case(case, ctx, st):
    if case.get("kind") == "onehot":
        return run_onehot(case, ctx)
    i = case["i"]
    rng = gen.rng_for(case["seed"], ID, "run", i)
    names = list(gen.ESTIMATORS)
    name = names[i % len(names)]
    fam = FAMILIES[(i // len(names)) % len(FAMILIES)]
    fams = [fam]
    if case.get("tier") == "thorough" and rng.random() < 0.5:
        fams.append(FAMILIES[int(rng.integers(0, len(FAMILIES)))])
    n = int(rng.integers(6, 30))
    d = int(rng.integers(1, 4)) if name == "Douglas" else int(rng.integers(1, 6))
    X = gen.make_data(rng, n, d, "blobs")
    params, pre = gen.random_config(rng, name, n, d, allow_precomputed=False, allow_callable=False,
                                    gemini=gen.GEMINI_NAMES[int(rng.integers(0, 13))] if name in gen.GENERIC else None)
    for k in ("kernel", "base_kernel"):
        if params.get(k) in ("chi2", "additive_chi2"):
            params[k] = "rbf"
            params.pop(k + "_params", None)
    if name != "Kauri":
        params["max_iter"] = int(rng.integers(2, 12))
    for f in fams:
        X, params = apply_family(rng, f, X, params, name)
        ctx.count("family:" + f)
    n, d = X.shape
    if "groups" in params:
        params["groups"] = None if d != params.get("_d", d) else params["groups"]
        params["groups"] = gen.random_groups(rng, d)
    if name == "Douglas" and params.get("feature_mask") is not None and len(params["feature_mask"]) != d:
        params.pop("feature_mask")
    if name == "Kauri":
        leaf = params.get("min_samples_leaf", 1)
        if n < leaf:
            params["min_samples_leaf"] = 1
            params["min_samples_split"] = 2
    ctx.case = dict(case, estimator=name, families=fams, params=params, n=n, d=d)
    ctx.count("runs")
    est = gen.build_estimator(name, params)
    st.model, st.first_bad, st.steps, st.bad_val = est, None, 0, None
    use_path = name in gen.SPARSE and (i // (len(names) * len(FAMILIES))) % 2 == 0 and d >= 2
    mech_tag = f"{name}/{'+'.join(fams)}"
    hist = None
    try:
        with warnings.catch_warnings():
            warnings.simplefilter("ignore")
            if use_path:
                est.set_params(alpha=0.05, dynamic=False) if "dynamic" in est.get_params() else est.set_params(alpha=0.05)
                hist = est.path(X, alpha_multiplier=2.0, min_features=1, max_patience=2)
                ctx.count("paths")
            else:
                est.fit(X)
    except Exception as e:
        import traceback
        fr = [f.name for f in traceback.extract_tb(e.__traceback__) if "/gemclus/" in f.filename]
        ctx.violation("completes", f"raises/{name}/{fam}/{type(e).__name__}@{fr[-1] if fr else '?'}",
                      observed={"exc": repr(e)[:300], "params": params, "families": fams, "n": n, "d": d}, expected="completes")
        st.model = None
        return
    bad = []
    if st.first_bad is not None:
        bad.append(("parameter-nonfinite-during-training", st.first_bad))
    if st.bad_val is not None:
        bad.append(("path-validation-score-nonfinite-with-finite-weights", st.bad_val))
    try:
        if name != "Kauri":
            for j, w in enumerate(est._get_weights()):
                if not np.all(np.isfinite(w)):
                    bad.append(("learned-parameter-nonfinite", {"param": j}))
                    break
            P = np.asarray(est.predict_proba(X))
            if not np.all(np.isfinite(P)):
                bad.append(("probabilities-nonfinite", None))
            Xf = X + rng.normal(scale=float(np.std(X)) + 1e-3, size=X.shape)
            if name not in gen.NONPARAMETRIC:
                Pf = np.asarray(est.predict_proba(Xf))
                if not np.all(np.isfinite(Pf)):
                    bad.append(("probabilities-nonfinite-fresh-data", None))
        sc = est.score(X)
        if not np.isfinite(sc):
            bad.append(("score-nonfinite", sc))
        if name not in gen.NONPARAMETRIC:
            # "batches of one sample", "duplicated samples": the score of one row, of copies of one row, of a slice of the
            # data (clusters the model knows may simply not occur in what is scored)
            j = int(rng.integers(0, n))
            for tag, Xs in (("one-sample", X[j:j + 1]), ("copies-of-one-sample", np.repeat(X[j:j + 1], 3, axis=0)),
                            ("slice", X[: max(1, n // 3)])):
                ctx.count("small_batch_scores")
                s2 = est.score(np.array(Xs, copy=True))
                if not np.isfinite(s2):
                    bad.append(("score-nonfinite-on-" + tag, {"score": s2, "rows": len(Xs)}))
                    break
        if hist is not None:
            bw, geminis, pens, alphas, nfeat = hist
            if not (all(np.all(np.isfinite(w)) for w in bw) and np.all(np.isfinite(geminis)) and np.all(np.isfinite(pens))
                    and np.all(np.isfinite(alphas))):
                bad.append(("path-history-nonfinite", {"geminis": geminis[:5]}))
        lab = np.asarray(est.labels_)
        if not np.issubdtype(lab.dtype, np.integer):
            bad.append(("labels-not-integer", str(lab.dtype)))
    except Exception as e:
        bad.append((f"post-call-raises-{type(e).__name__}", repr(e)[:200]))
    st.model = None
    ctx.count("runs_complete")
    ctx.distinct(name, tuple(fams), str(params))
    ctx.sample({"estimator": name, "families": fams, "n": n, "d": d, "steps": st.steps, "path": use_path})
    # classifier of the one known mechanism: plain gradient descent on the quadratic penalty of RIM / KernelRIM with a
    # step beyond the stability limit of that quadratic (lr * 2 * reg * lambda_max > 2) diverges whatever the data term
    diverging_quadratic = False
    if bad and name in ("RIM", "KernelRIM") and params.get("solver") == "sgd" and params.get("reg", 0) > 0:
        lam = 1.0
        if name == "KernelRIM":
            try:
                Kt = np.asarray(est._compute_kernel(X), dtype=float)
                lam = float(np.max(np.abs(np.linalg.eigvalsh((Kt + Kt.T) / 2))))
            except Exception:
                lam = float("nan")
        diverging_quadratic = params["learning_rate"] * 2 * params["reg"] * lam > 2
    for what, obs in bad[:2]:
        mech = "sgd-step-beyond-stability-of-l2-penalty" if diverging_quadratic else f"{what}/{name}/{fam}"
        ctx.violation("finite", mech, observed={"what": what, "detail": obs, "params": params, "families": fams}, expected="finite")
