"""Shared by C01 / C02 / C13 / C11: tap on every GEMINI evaluate call, direct-call workload generator."""
import numpy as np

from .. import gen
from ..attach import Patcher

FDIV_WIDE = ["TVGEMINI", "KLGEMINI", "HellingerGEMINI", "ChiSquareGEMINI"]
CONCRETE = ["KLGEMINI", "TVGEMINI", "HellingerGEMINI", "ChiSquareGEMINI", "MMDGEMINI", "WassersteinGEMINI"]


class GeminiTap:
    """Class-level wrapper around `evaluate` of the six concrete GEMINI classes.

    callback(gem, y_pred_copy, affinity, return_grad, result, orig) is invoked after every call made by anybody
    (direct calls, __call__, DiscriminativeModel.score, fit loops, path validation scores).  `orig(gem, P, A, rg)`
    calls the unwrapped implementation, so monitors can re-invoke it without being observed themselves."""

    def __init__(self, callback, ctx=None):
        import gemclus.gemini as gg
        self.patcher = Patcher()
        self.callback = ctx.guard(callback, "gemini-tap") if ctx is not None else callback
        self.originals = {}
        self.enabled = True
        self.depth = 0
        # every library class of the GEMINI hierarchy that carries its own `evaluate` (MI inherits KLGEMINI's today;
        # were it given one of its own, calls through it must still be observed, and observed once)
        roots = [c for name in CONCRETE for c in getattr(gg, name).__mro__ if str(c.__module__).startswith("gemclus")]
        seen, todo = [], list(roots)
        while todo:
            c = todo.pop()
            if c in seen:
                continue
            seen.append(c)
            todo += [s for s in c.__subclasses__() if str(s.__module__).startswith("gemclus")]
        for cls in seen:
            orig = vars(cls).get("evaluate")
            if orig is None or getattr(orig, "__isabstractmethod__", False):
                continue
            self.originals[cls] = orig
            self.patcher.setattr(cls, "evaluate", self._make(cls, orig))

    def orig_for(self, gem):
        for cls in type(gem).__mro__:
            if cls in self.originals:
                return self.originals[cls]
        raise KeyError(type(gem))

    def _make(self, cls, orig):
        tap = self

        def evaluate(self, y_pred, affinity, return_grad=False):
            if not tap.enabled or tap.depth > 0:
                return orig(self, y_pred, affinity, return_grad)
            P0 = np.array(y_pred, dtype=float, copy=True)
            tap.depth += 1       # an override that delegates to its parent is one call, seen at the outermost frame
            try:
                res = orig(self, y_pred, affinity, return_grad)
            finally:
                tap.depth -= 1
            tap.enabled = False
            try:
                tap.callback(self, P0, affinity, return_grad, res, lambda g, P, A, rg=False: tap.orig_for(g)(g, P, A, rg))
            finally:
                tap.enabled = True
            return res

        evaluate.__wrapped__ = orig
        return evaluate

    def close(self):
        self.patcher.restore()


def interior(P, eps):
    """P rows sum to one and no entry is clipped at eps / 1-eps."""
    return (P.ndim == 2 and P.size > 0 and bool(np.all(np.abs(P.sum(1) - 1.0) <= 1e-9))
            and bool(np.all(P > eps)) and bool(np.all(P < 1 - eps)))


def class_distance(gem):
    from ..refs.gemini import CLASS_DISTANCE
    for cls in type(gem).__mro__:
        if cls.__name__ in CLASS_DISTANCE:
            return CLASS_DISTANCE[cls.__name__]
    return None


def direct_case(seed, prop, idx, nmax=16, kmax=6, scales=(0.1, 0.5, 1.0, 2.0, 4.0, 8.0), nmin=1, big=False, big_n=64,
                big_wass=32, huge=True):
    """Build (desc, gem, P, logits, A, X) for direct-call case number idx."""
    rng = gen.rng_for(seed, prop, "direct", idx)
    if big and huge and idx % 200 == 7:
        # a very wide f-divergence case: n * K^2 beyond 2^20 elements (n 1100..1500, K 32..48), the size at which an
        # implementation starts thinking about memory (blocks, chunks, reductions in pieces); one-vs-one three times out of four
        n, K = int(rng.integers(1100, 1501)), int(rng.integers(32, 49))
        desc = {"cls": FDIV_WIDE[(idx // 200) % 4], "ovo": bool(rng.random() < 0.75)}
        gem = gen.gemini_from_desc(desc)
        scale = float(rng.choice([0.5, 1.0, 2.0]))
        P, L = gen.predictions(rng, n, K, scale)
        info = {"gemini": desc, "n": n, "K": K, "d": 1, "data": "none", "logit_scale": scale, "affinity_log10_scale": 0.0, "wide": True}
        return info, gem, P, L, None, np.zeros((n, 1))
    nonneg = bool(rng.random() < 0.25)
    desc = gen.random_gemini_desc(rng, nonneg=nonneg)
    n = int(rng.integers(nmin, nmax + 1))
    K = int(rng.integers(2, kmax + 1))
    if big and huge and rng.random() < 0.03 and not (isinstance(desc, dict) and desc.get("cls") == "WassersteinGEMINI"):
        # a few very wide shapes (hundreds of samples, dozens of clusters): block-wise or chunked computations
        n = int(rng.integers(100, 1500))
        K = int(rng.integers(2, 49))
    elif big and rng.random() < 0.12:
        # occasional wide shapes: a defect confined to many samples / many clusters must not hide behind small cases
        wass = isinstance(desc, dict) and desc.get("cls") == "WassersteinGEMINI"
        hi = big_wass if wass else big_n
        if hi > nmax:
            n = int(rng.integers(nmax + 1, hi + 1))
        K = int(rng.integers(2, 13))
    d = int(rng.integers(1, 5))
    kind = "nonneg" if nonneg else ["blobs", "ties", "duprows", "small", "large"][int(rng.integers(0, 5))]
    if isinstance(desc, dict) and desc.get("kernel") in ("sigmoid", "poly", "polynomial") and kind == "large":
        kind = "blobs"
    X = gen.make_data(rng, n, d, kind)
    gem = gen.gemini_from_desc(desc)
    A = gen.affinity_for(gem, desc, X, rng)
    mag = 0.0
    if A is not None and rng.random() < 0.2:
        # affinities of tiny / huge magnitude (data in other units, rescaled user matrices): the score of a distance
        # GEMINI is homogeneous in the affinity, nothing may depend on its absolute size
        mag = float(rng.uniform(-18, 6))
        if isinstance(desc, dict) and desc.get("cls") == "WassersteinGEMINI":
            # the network-simplex solver behind the Wasserstein GEMINI compares reduced costs with an absolute 1e-16:
            # it is scale-invariant down to costs of ~1e-12 only (probed) - stay well inside that range
            mag = float(rng.uniform(-4, 6))
        A = np.asarray(A, dtype=float)
        amax = float(np.max(np.abs(A)))
        if amax > 0:
            A = A / amax * 10.0 ** mag          # largest entry has magnitude 10**mag
    scale = float(scales[int(rng.integers(0, len(scales)))])
    P, L = gen.predictions(rng, n, K, scale)
    info = {"gemini": desc, "n": n, "K": K, "d": d, "data": kind, "logit_scale": scale, "affinity_log10_scale": mag}
    return info, gem, P, L, A, X


def mmd_tolerance(gem, P, A, rel=1e-13):
    """Absolute tolerance for an MMD score: sqrt amplifies the round-off of a difference of kernel means of
    magnitude max|A| when the squared distance is tiny."""
    from ..refs.gemini import ref_gemini  # noqa: F401
    N, K = P.shape
    pi = P.mean(0)
    q = P / P.sum(0, keepdims=True)
    e = rel * float(np.max(np.abs(A)))        # round-off is relative to the kernel's own magnitude (no floor)
    tol = 0.0
    if not gem.ovo:
        p = np.full(N, 1.0 / N)
        for k in range(K):
            dlt = q[:, k] - p
            v = max(float(dlt @ A @ dlt), 0.0)
            tol += pi[k] * (np.sqrt(v + e) - np.sqrt(max(v - e, 0.0)))
    else:
        for k in range(K):
            for kk in range(K):
                if k != kk:
                    dlt = q[:, k] - q[:, kk]
                    v = max(float(dlt @ A @ dlt), 0.0)
                    tol += pi[k] * pi[kk] * (np.sqrt(v + e) - np.sqrt(max(v - e, 0.0)))
    return float(tol)


def score_abs_err(gem, P, A):
    """Absolute round-off of the score returned by `gem` at predictions P (used as noise floor by the numeric
    derivative): every f-divergence is a difference of O(1) intermediates; the Wasserstein solver resolves masses to
    ~1e-16, i.e. costs to ~1e-14*max|cost|; the MMD takes the square root of a difference of kernel means whose round-off
    is relative to the kernel's own magnitude - never to 1, so that tiny or huge kernels are judged on their own scale."""
    EPS = np.finfo(float).eps
    name = [c.__name__ for c in type(gem).__mro__ if c.__name__ in CONCRETE]
    name = name[0] if name else ""
    if A is None or name not in ("MMDGEMINI", "WassersteinGEMINI"):
        return 100 * EPS
    A = np.asarray(A, dtype=float)
    amax = float(np.max(np.abs(A))) if A.size else 0.0
    if name == "WassersteinGEMINI":
        # + the solver's absolute 2.2e-16 on reduced costs times a unit of mass
        return 1e-14 * amax + 100 * EPS * amax + 1e-15
    return mmd_tolerance(gem, np.clip(P, gem.epsilon, 1 - gem.epsilon), A, rel=1e-14)
