"""Shared by C01 / C02 / C13 / C11: tap on every GEMINI evaluate call, direct-call workload generator."""
import numpy as np

from .. import gen
from ..attach import Patcher

CONCRETE = ["KLGEMINI", "TVGEMINI", "HellingerGEMINI", "ChiSquareGEMINI", "MMDGEMINI", "WassersteinGEMINI"]


class GeminiTap:
    """Class-level wrapper around `evaluate` of the six concrete GEMINI classes.

    callback(gem, y_pred_copy, affinity, return_grad, result, orig) is invoked after every call made by anybody
    (direct calls, __call__, DiscriminativeModel.score, fit loops, path validation scores).  `orig(gem, P, A, rg)`
    calls the unwrapped implementation, so monitors can re-invoke it without being observed themselves."""

    def __init__(self, callback, ctx=None):
        import gemclus.gemini as gg
        self.patcher = Patcher()
        self.callback = ctx.guard(callback, "gemini-tap") if ctx is not None else callback
        self.originals = {}
        self.enabled = True
        for name in CONCRETE:
            cls = getattr(gg, name)
            orig = vars(cls)["evaluate"]
            self.originals[cls] = orig
            self.patcher.setattr(cls, "evaluate", self._make(cls, orig))

    def orig_for(self, gem):
        for cls in type(gem).__mro__:
            if cls in self.originals:
                return self.originals[cls]
        raise KeyError(type(gem))

    def _make(self, cls, orig):
        tap = self

        def evaluate(self, y_pred, affinity, return_grad=False):
            if not tap.enabled:
                return orig(self, y_pred, affinity, return_grad)
            P0 = np.array(y_pred, dtype=float, copy=True)
            res = orig(self, y_pred, affinity, return_grad)
            tap.enabled = False
            try:
                tap.callback(self, P0, affinity, return_grad, res, lambda g, P, A, rg=False: tap.orig_for(g)(g, P, A, rg))
            finally:
                tap.enabled = True
            return res

        evaluate.__wrapped__ = orig
        return evaluate

    def close(self):
        self.patcher.restore()


def interior(P, eps):
    """P rows sum to one and no entry is clipped at eps / 1-eps."""
    return (P.ndim == 2 and P.size > 0 and bool(np.all(np.abs(P.sum(1) - 1.0) <= 1e-9))
            and bool(np.all(P > eps)) and bool(np.all(P < 1 - eps)))


def class_distance(gem):
    from ..refs.gemini import CLASS_DISTANCE
    for cls in type(gem).__mro__:
        if cls.__name__ in CLASS_DISTANCE:
            return CLASS_DISTANCE[cls.__name__]
    return None


def direct_case(seed, prop, idx, nmax=16, kmax=6, scales=(0.1, 0.5, 1.0, 2.0, 4.0, 8.0), nmin=1):
    """Build (desc, gem, P, logits, A, X) for direct-call case number idx."""
    rng = gen.rng_for(seed, prop, "direct", idx)
    nonneg = bool(rng.random() < 0.25)
    desc = gen.random_gemini_desc(rng, nonneg=nonneg)
    n = int(rng.integers(nmin, nmax + 1))
    K = int(rng.integers(2, kmax + 1))
    d = int(rng.integers(1, 5))
    kind = "nonneg" if nonneg else ["blobs", "ties", "duprows", "small", "large"][int(rng.integers(0, 5))]
    if isinstance(desc, dict) and desc.get("kernel") in ("sigmoid", "poly", "polynomial") and kind == "large":
        kind = "blobs"
    X = gen.make_data(rng, n, d, kind)
    gem = gen.gemini_from_desc(desc)
    A = gen.affinity_for(gem, desc, X, rng)
    scale = float(scales[int(rng.integers(0, len(scales)))])
    P, L = gen.predictions(rng, n, K, scale)
    info = {"gemini": desc, "n": n, "K": K, "d": d, "data": kind, "logit_scale": scale}
    return info, gem, P, L, A, X


def mmd_tolerance(gem, P, A, rel=1e-13):
    """Absolute tolerance for an MMD score: sqrt amplifies the round-off of a difference of kernel means of
    magnitude max|A| when the squared distance is tiny."""
    from ..refs.gemini import ref_gemini  # noqa: F401
    N, K = P.shape
    pi = P.mean(0)
    q = P / P.sum(0, keepdims=True)
    e = rel * max(1.0, float(np.max(np.abs(A))))
    tol = 0.0
    if not gem.ovo:
        p = np.full(N, 1.0 / N)
        for k in range(K):
            dlt = q[:, k] - p
            v = max(float(dlt @ A @ dlt), 0.0)
            tol += pi[k] * (np.sqrt(v + e) - np.sqrt(max(v - e, 0.0)))
    else:
        for k in range(K):
            for kk in range(K):
                if k != kk:
                    dlt = q[:, k] - q[:, kk]
                    v = max(float(dlt @ A @ dlt), 0.0)
                    tol += pi[k] * pi[kk] * (np.sqrt(v + e) - np.sqrt(max(v - e, 0.0)))
    return float(tol)
