"""C14 - must-link / cannot-link constraints: exact validation, right samples, right sign."""
import itertools

import numpy as np

from .. import gen
from . import _gem, _train

ID = "C14"
RULE = ("(1) add_mlcl_constraint outcome vs a union-find reference validator: exhaustive over all must-link sets (<=3 "
        "pairs) x cannot-link sets (<=2 pairs) on 4 nodes under several id relabelings (contiguous, permuted, "
        "non-contiguous large ids) and pair orientations, plus self pairs, malformed inputs (scalars, flat lists, single "
        "column) and random larger sets with repeats; (2) on decorated fits of every gradient family, for every batch: "
        "gradient received by the model's own _compute_grads minus the gradient returned by GEMINI.evaluate == "
        "sum of +-factor*(p_i-p_j) on exactly the rows of the linked samples present in the batch. One evaluation = one "
        "validation or one batch. Non-trivial: validation with both lists non-empty / batch holding >=1 complete pair.")
ASSUMPTIONS = ["the consistent / contradictory verdict follows the property text: no self pair, no cannot-link pair "
               "inside a connected component of the must-link graph"]
EVAL_COUNTER = "evaluations"
REQUIRED = {"quick": {"validations": 3000, "accepted_ok": 500, "rejected_ok": 500, "malformed_rejected": 19, "chain_validations": 300,
                      "batches_checked": 300, "batches_with_pairs": 80, "batches_partial_pairs": 20},
            "thorough": {"validations": 40000, "batches_checked": 8000}}
SHARD_TIMEOUT = {"quick": 900, "thorough": 5400}

RELABELS = [[0, 1, 2, 3], [3, 1, 0, 2], [5, 7, 9, 100], [40, 2, 17, 3], [1, 2, 3, 4]]


def cases(tier, seed):
    out = [{"kind": "exhaustive", "seed": seed, "relabel": r, "flip": f} for r in range(len(RELABELS)) for f in (0, 1)]
    nr, nf = (40, 96) if tier == "quick" else (1500, 1600)
    out += [{"kind": "random", "seed": seed, "i": i} for i in range(nr)]
    out += [{"kind": "chains", "seed": seed, "i": i} for i in range(16 if tier == "quick" else 400)]
    out += [{"kind": "malformed", "seed": seed}]
    out += [{"kind": "fit", "seed": seed, "i": i} for i in range(nf)]
    return out


def ref_valid(ml, cl):
    """True iff the pair sets are acceptable per the property statement."""
    parent = {}

    def find(x):
        parent.setdefault(x, x)
        while parent[x] != x:
            parent[x] = parent[parent[x]]
            x = parent[x]
        return x
    for (i, j) in list(ml) + list(cl):
        if i == j:
            return False
    for (i, j) in ml:
        ri, rj = find(i), find(j)
        if ri != rj:
            parent[ri] = rj
    for (i, j) in cl:
        if i in parent and j in parent and find(i) == find(j):
            return False
    return True


class State(_train.Listener):
    def __init__(self, ctx):
        import gemclus
        self.ctx = ctx
        self.spec = None           # (ml, cl, factor) of the fit in progress
        self.gem_grad = None
        self.gem_P = None
        self.depth = 0
        self.tap = _train.TrainTap(ctx, self)
        self.gtap = _gem.GeminiTap(self.on_eval, ctx)
        # class-level wrappers on the models' own _compute_grads, installed before any decoration
        from ..attach import Patcher
        self.patcher = Patcher()
        seen = set()
        for name in gen.GRADIENT_ESTIMATORS:
            for cls in gen.get_class(name).__mro__:
                if "_compute_grads" in vars(cls) and cls not in seen and not getattr(vars(cls)["_compute_grads"], "__isabstractmethod__", False):
                    seen.add(cls)
                    self.patcher.setattr(cls, "_compute_grads", self._wrap(vars(cls)["_compute_grads"]))

    def close(self):
        self.patcher.restore()
        self.gtap.close()
        self.tap.close()

    def on_eval(self, gem, P, A, return_grad, res, orig):
        if return_grad and self.spec is not None:
            self.gem_grad = np.array(res[1], dtype=float, copy=True)
            self.gem_P = P

    def _wrap(self, orig):
        st = self

        def _compute_grads(self, X, y_pred, gradient):
            if st.depth == 0 and st.spec is not None:
                st.ctx.guard(st.check_batch, "check_batch")(self, np.array(y_pred, copy=True), np.array(gradient, copy=True), X)
            st.depth += 1
            try:
                return orig(self, X, y_pred, gradient)
            finally:
                st.depth -= 1
        _compute_grads.__wrapped__ = orig
        return _compute_grads

    def check_batch(self, model, y_pred, received, Xbatch=None):
        ctx = self.ctx
        ml, cl, factor = self.spec
        lb = self.tap.last_batch
        if lb is None or lb[0] is not model or self.gem_grad is None:
            ctx.count("batch_without_context")
            return
        # consumer side: which samples are the rows that this back-propagation is really working on
        ids = None
        Xfull = self.tap.current_X()
        from gemclus.nonparametric._categorical_models import CategoricalModel
        if isinstance(model, CategoricalModel):
            ids = list(range(len(y_pred)))
        elif Xbatch is not None and Xfull is not None:
            try:
                dec = _train.decode_ids(Xfull, Xbatch)
                ids = None if dec is None else [int(x) for x in dec]
                if dec is None:
                    ctx.violation("constraint-gradient", "training-rows-not-from-data", observed={"rows": Xbatch}, expected="rows of X")
                    return
            except _train.AmbiguousRows:
                ctx.count("ambiguous_rows_fallback_to_yielded_ids")
        if ids is None:
            ids = lb[5]
            if ids is None:
                ctx.count("batch_without_ids")
                return
            ids = [int(x) for x in ids]
        ctx.count("batches_checked")
        ctx.count("evaluations")
        # recorded indices must be the true sample ids of the rows, in batch order
        # (where the decoration keeps them is its own business: `_batchify.indices` is where today's code does; when that
        # attribute is absent the record cannot be read, and the clause is decided through its effect below - the
        # constraint terms land on the rows of the right samples or they do not)
        rec = getattr(model._batchify, "indices", None)
        if rec is None:
            ctx.count("recorded_indices_attribute_absent")
        elif [int(x) for x in rec] != ids:
            ctx.violation("recorded-indices", "batch-indices-not-recorded", observed={"recorded": rec, "true_ids": ids},
                          expected="equal")
            return
        else:
            ctx.count("recorded_indices_checked")
        if not (np.all(np.isfinite(self.gem_grad)) and np.all(np.isfinite(y_pred)) and np.all(np.isfinite(received))):
            ctx.count("nonfinite_gradient_skipped")    # C17 / C02's business
            return
        if self.gem_grad.shape != received.shape:
            ctx.violation("constraint-gradient", "constraint-grad-shape", observed=list(received.shape),
                          expected=list(self.gem_grad.shape))
            return
        pos = {s: a for a, s in enumerate(ids)}
        expected = np.zeros_like(received)
        npairs, partial = 0, 0
        for (pairs, sgn) in ((cl, +1.0), (ml, -1.0)):
            for (i, j) in pairs:
                if i in pos and j in pos:
                    a, b = pos[i], pos[j]
                    expected[a] += sgn * factor * (y_pred[a] - y_pred[b])
                    expected[b] += sgn * factor * (y_pred[b] - y_pred[a])
                    npairs += 1
                elif i in pos or j in pos:
                    partial += 1
        delta = received - self.gem_grad
        scale = max(1.0, float(np.max(np.abs(self.gem_grad))), factor)
        if npairs:
            ctx.count("batches_with_pairs")
            ctx.distinct("batch", type(model).__name__, tuple(ids), round(factor, 6), npairs)
            ctx.sample({"estimator": type(model).__name__, "batch_ids": ids, "must_link": ml, "cannot_link": cl,
                        "factor": factor, "pairs_in_batch": npairs})
        if partial:
            ctx.count("batches_partial_pairs")
        if not np.all(np.abs(delta - expected) <= 1e-12 * scale):
            touched = sorted({r for r in range(len(ids)) if np.any(np.abs(delta[r]) > 1e-12 * scale)})
            want = sorted({r for r in range(len(ids)) if np.any(expected[r] != 0)})
            mech = "constraint-term-wrong-rows" if touched != want else "constraint-term-wrong-value"
            ctx.violation("constraint-gradient", mech,
                          observed={"batch_ids": ids, "rows_touched": touched, "delta": delta, "factor": factor,
                                    "must_link": ml, "cannot_link": cl},
                          expected={"rows": want, "delta": expected})


def setup(ctx):
    return State(ctx)


def reach_targets(reach):
    import gemclus.mlcl as m
    reach.add_function(m._check_structural_constraint)
    reach.add_function(m._check_linking_constraint)
    reach.add_function(m.add_mlcl_constraint)


def _try(ctx, ml, cl, factor=1.0, as_array=False):
    from gemclus import add_mlcl_constraint
    from gemclus.linear import LinearModel
    model = LinearModel()
    a_ml = (np.array(ml, dtype=int).reshape(-1, 2) if as_array and ml else ml)
    a_cl = (np.array(cl, dtype=int).reshape(-1, 2) if as_array and cl else cl)
    try:
        out = add_mlcl_constraint(model, a_ml, a_cl, factor)
        return "accepted" if out is model or out is not None else "accepted-none"
    except (ValueError, TypeError) as e:
        return "rejected"


def _validate(ctx, ml, cl, as_array=False):
    want = "accepted" if ref_valid(ml or [], cl or []) else "rejected"
    got = _try(ctx, ml, cl, as_array=as_array)
    ctx.count("validations")
    ctx.count("evaluations")
    if ml and cl:
        ctx.distinct("val", tuple(map(tuple, ml)), tuple(map(tuple, cl)))
    if got == want:
        ctx.count(want + "_ok")
        return
    ids_are_positions = False
    mech = "validator-accepts-contradiction" if want == "rejected" else "validator-rejects-consistent-set"
    ctx.violation("validator", mech, observed={"must_link": ml, "cannot_link": cl, "outcome": got}, expected=want)


def run_case(case, ctx, st):
    st.spec = None
    if case["kind"] == "exhaustive":
        lab = RELABELS[case["relabel"]]
        pairs = list(itertools.combinations(range(4), 2))
        for nml in range(0, 4):
            for mls in itertools.combinations(pairs, nml):
                for ncl in range(0, 3):
                    for cls_ in itertools.combinations(pairs, ncl):
                        ml = [(lab[a], lab[b]) if not case["flip"] else (lab[b], lab[a]) for a, b in mls]
                        cl = [(lab[a], lab[b]) if (a + b) % 2 == case["flip"] else (lab[b], lab[a]) for a, b in cls_]
                        ctx.case = dict(case, ml=ml, cl=cl)
                        _validate(ctx, ml, cl, as_array=bool((nml + ncl) % 2))
        # self pairs
        for s in lab:
            _validate(ctx, [(s, s)], [])
            _validate(ctx, [], [(s, s)])
            _validate(ctx, [(lab[0], lab[1]), (s, s)], [(lab[2], lab[3])])
    elif case["kind"] == "random":
        rng = gen.rng_for(case["seed"], ID, "random", case["i"])
        for _ in range(40):
            m = int(rng.integers(3, 9))
            ids = [int(x) for x in rng.choice(200, size=m, replace=False)]
            allp = [(ids[a], ids[b]) for a in range(m) for b in range(m) if a != b]
            ml = [allp[int(x)] for x in rng.integers(0, len(allp), size=int(rng.integers(1, 6)))]
            cl = [allp[int(x)] for x in rng.integers(0, len(allp), size=int(rng.integers(1, 5)))]
            if rng.random() < 0.3:
                ml.append(ml[0])                    # repeated pair
            if rng.random() < 0.1:
                cl.append((ids[0], ids[0]))         # self pair
            ctx.case = dict(case, ml=ml, cl=cl)
            _validate(ctx, ml, cl, as_array=bool(rng.random() < 0.5))
    elif case["kind"] == "chains":
        # long must-link structures: paths, cycles and trees of 3..40 samples (components whose diameter is large), with a
        # cannot-link pair between two far-apart members (contradiction), between two components (consistent), and the
        # must-link pairs given in shuffled order and random orientation
        rng = gen.rng_for(case["seed"], ID, "chains", case["i"])
        for _ in range(30):
            m = int(rng.integers(3, 41))
            ids = [int(x) for x in rng.choice(500, size=m + 6, replace=False)]
            comp, other = ids[:m], ids[m:]
            shape = ["path", "cycle", "tree", "two-paths"][int(rng.integers(0, 4))]
            if shape == "path":
                ml = [(comp[a], comp[a + 1]) for a in range(m - 1)]
            elif shape == "cycle":
                ml = [(comp[a], comp[(a + 1) % m]) for a in range(m)]
            elif shape == "tree":
                ml = [(comp[int(rng.integers(0, a))], comp[a]) for a in range(1, m)]
            else:
                h = max(2, m // 2)
                ml = [(comp[a], comp[a + 1]) for a in range(h - 1)] + [(comp[a], comp[a + 1]) for a in range(h, m - 1)]
            ml += [(other[0], other[1]), (other[2], other[3])]
            ml = [ml[int(k)] for k in rng.permutation(len(ml))]
            ml = [(a, b) if rng.random() < 0.5 else (b, a) for a, b in ml]
            far = (comp[0], comp[-1])                       # ends of the path / far members of the component
            r = rng.random()
            if r < 0.4:
                cl = [far]
            elif r < 0.6:
                cl = [(comp[int(rng.integers(0, m))], other[0]), (other[1], other[2])]        # between components: consistent
            elif r < 0.8:
                cl = [(other[4], other[5]), (comp[int(rng.integers(0, m))], other[4]), far]
            else:
                cl = [(other[0], other[1])]                                                     # inside the small component
            ctx.count("chain_validations")
            ctx.case = dict(case, ml=ml, cl=cl, shape=shape)
            _validate(ctx, ml, cl, as_array=bool(rng.random() < 0.5))
    elif case["kind"] == "malformed":
        from gemclus import add_mlcl_constraint
        from gemclus.linear import LinearModel
        bad = [3, [1, 2], [[1], [2]], np.array([[1], [2]]), [1, 2, 3, 4], "ab", [[1, 2], [3]], 2.5]
        for b in bad:
            for slot in ("must_link", "cannot_link"):
                ctx.case = dict(case, bad=repr(b), slot=slot)
                ctx.count("evaluations")
                try:
                    add_mlcl_constraint(LinearModel(), **{slot: b})
                    ctx.violation("validator", "validator-accepts-malformed", observed={"input": repr(b), "slot": slot},
                                  expected="ValueError/TypeError")
                except (ValueError, TypeError):
                    ctx.count("malformed_rejected")
        # non-models are refused, valid factors only
        for model, kw in ((object(), {}), (LinearModel(), {"factor": 0}), (LinearModel(), {"factor": -1.0})):
            try:
                add_mlcl_constraint(model, [(0, 1)], None, **kw)
                ctx.violation("validator", "validator-accepts-bad-argument", observed=repr((type(model).__name__, kw)),
                              expected="ValueError/TypeError")
            except (ValueError, TypeError):
                ctx.count("malformed_rejected")
    else:
        from gemclus import add_mlcl_constraint
        i = case["i"]
        rng = gen.rng_for(case["seed"], ID, "fit", i)
        name = gen.GRADIENT_ESTIMATORS[i % len(gen.GRADIENT_ESTIMATORS)]
        n, d = int(rng.integers(6, 15)), int(rng.integers(1, 4))
        X = gen.make_data(rng, n, d, "blobs") + rng.normal(scale=1e-3, size=(n, d))
        params, pre = gen.random_config(rng, name, n, d, max_iter=int(rng.integers(2, 6)))
        if name not in gen.NONPARAMETRIC:
            params["batch_size"] = [1, 2, 3, -(-n // 2), n, None][int(rng.integers(0, 6))]
        y = gen.precomputed_for(rng, pre, n)
        est = gen.build_estimator(name, params)
        # consistent sets over a random subset of sample ids; ids chosen so that positions != ids
        perm = [int(x) for x in rng.permutation(n)]
        ml = [(perm[0], perm[1])]
        if rng.random() < 0.6:
            ml.append((perm[2], perm[1]))
        cl = [(perm[3], perm[4])]
        if rng.random() < 0.5:
            cl.append((perm[5], perm[0]))
        if rng.random() < 0.2:
            ml, cl = (ml, []) if rng.random() < 0.5 else ([], cl)
        factor = float(10 ** rng.uniform(-2, 1))
        ctx.case = dict(case, estimator=name, params=params, ml=ml, cl=cl, factor=factor)
        try:
            est = add_mlcl_constraint(est, ml or None, cl or None, factor)
        except ValueError:
            ctx.count("fit_setup_refused")     # reported by the validator monitor above when wrong
            _validate(ctx, ml, cl)
            return
        st.spec = (ml, cl, factor)
        st.gem_grad = None
        ctx.count("fits")
        try:
            est.fit(X, y)
        except Exception as e:
            ctx.count("fit_raised:" + type(e).__name__)
        finally:
            st.spec = None
