"""C20 - synthetic data generators follow their documented distributions (statistical monitors on returned (X, y))."""
import math

import numpy as np
from scipy import stats

from .. import gen

ID = "C20"
RULE = ("calls of the five generators with random parameters (d 1..5, K 2..5, random means / SPD covariances / dyadic "
        "proportions, df 0.5..30, alpha, mu, p) at n = 2e4 (quick) .. 2e5 (thorough): shapes, label ranges, bit-identical "
        "output for identical integer seeds, and fixed-seed statistical tests at 6.5 sigma (Bonferroni): label "
        "frequencies, per-label means and covariance entries (standard errors from Gaussian fourth moments), "
        "Kolmogorov-Smirnov distance of whitened Student-t marginals, celeux_two regression intercepts / slopes / "
        "residual covariance; invalid parameter sets must raise. One evaluation = one generator call. Non-trivial = all "
        "statistics evaluated; distinct by (generator, parameters).")
ASSUMPTIONS = ["thresholds: |z| <= 6.5 for means / covariances / proportions (false-alarm probability < 1e-8 per run, and a "
               "run is deterministic for a given VERIF_SEED), sqrt(n)*KS <= 3.2",
               "valid proportions are dyadic so that their floating-point sum is exactly 1 (the code tests equality)"]
EVAL_COUNTER = "calls"
REQUIRED = {"quick": {"calls": 60, "gmm_calls": 25, "gmm_1d_calls": 5, "student_calls": 8, "gstm_calls": 6, "celeux_one_calls": 6,
                      "celeux_two_calls": 6, "z_tests": 1500, "ks_tests": 20, "invalid_rejected": 12, "indefinite_covariances_tried": 40, "determinism_checks": 60, "gmm_other_unit_calls": 3, "gmm_tiny_unit_calls": 2, "rare_component_calls": 100, "rare_calls_with_a_skipped_inner_component": 20},
            "thorough": {"calls": 500, "z_tests": 12000}}
SHARD_TIMEOUT = {"quick": 1200, "thorough": 7000}
ZMAX = 6.5
KSMAX = 3.2


def cases(tier, seed):
    n = 80 if tier == "quick" else 640
    out = [{"kind": "call", "seed": seed, "i": i, "tier": tier} for i in range(n)]
    out += [{"kind": "invalid", "seed": seed}]
    out += [{"kind": "rare", "seed": seed, "i": i} for i in range(8 if tier == "quick" else 60)]
    return out


def setup(ctx):
    return None


def reach_targets(reach):
    import gemclus.data.synthetic_data as sd
    for f in ("draw_gmm", "multivariate_student_t", "gstm", "celeux_one", "celeux_two"):
        reach.add_function(getattr(sd, f))


def ztest(ctx, z, what, mech, detail):
    ctx.count("z_tests")
    ctx.maxi("max:abs_z", abs(z))
    if not abs(z) <= ZMAX:
        ctx.violation("statistics", mech, observed=dict(detail, z=z, what=what), expected=f"|z| <= {ZMAX}")
        return False
    return True


def check_gaussian_component(ctx, Xk, mean, cov, tag, mech_prefix):
    nk, d = Xk.shape
    if nk < 200:
        return
    m = Xk.mean(0)
    for j in range(d):
        se = math.sqrt(cov[j, j] / nk)
        if not ztest(ctx, (m[j] - mean[j]) / se, f"mean[{j}] of {tag}", mech_prefix + "/mean", {"sample": float(m[j]), "documented": float(mean[j])}):
            return
    S = np.cov(Xk.T, bias=False).reshape(d, d)
    for a in range(d):
        for b in range(a, d):
            se = math.sqrt((cov[a, a] * cov[b, b] + cov[a, b] ** 2) / nk)
            if not ztest(ctx, (S[a, b] - cov[a, b]) / se, f"cov[{a},{b}] of {tag}", mech_prefix + "/covariance",
                         {"sample": float(S[a, b]), "documented": float(cov[a, b])}):
                return


def check_labels(ctx, y, props, mech_prefix):
    n = len(y)
    for k, p in enumerate(props):
        c = int(np.sum(y == k))
        se = math.sqrt(n * p * (1 - p))
        if not ztest(ctx, (c - n * p) / se, f"count of label {k}", mech_prefix + "/proportions", {"count": c, "expected": n * p}):
            return


def spd(rng, d):
    A = rng.normal(size=(d, d))
    C = A @ A.T / d + np.eye(d) * rng.uniform(0.3, 1.5)
    return C * rng.uniform(0.3, 4.0)


def dyadic(rng, K):
    m = np.ones(K, dtype=int) * 2
    for _ in range(64 - 2 * K):
        m[int(rng.integers(0, K))] += 1
    return (m / 64.0).tolist()


def ks_marginals(ctx, Z, df, tag, mech):
    n, d = Z.shape
    for j in range(d):
        D = stats.kstest(Z[:, j], stats.t(df).cdf).statistic
        ctx.count("ks_tests")
        ctx.maxi("max:sqrtn_ks", math.sqrt(n) * D)
        if math.sqrt(n) * D > KSMAX:
            ctx.violation("statistics", mech, observed={"sqrt_n_ks": math.sqrt(n) * D, "marginal": j, "df": df, "what": tag}, expected=f"<= {KSMAX}")
            return


def run_rare(case, ctx):
    """Small draws from mixtures with rare components and far-apart means: some component gets no sample at all (a rare
    one, or more components than samples).  Every sample must still come from the component its label names: with means
    100 standard deviations apart it lies within 9 of them from the mean of its own label and nowhere near another one."""
    from gemclus.data import draw_gmm
    rng = gen.rng_for(case["seed"], ID, "rare", case["i"])
    for rep in range(25):
        d = int(rng.integers(1, 4))
        K = int(rng.integers(3, 7))
        means = np.array([[100.0 * k * (1 if j == 0 else (-1) ** k) for j in range(d)] for k in range(K)])
        rare = sorted(int(x) for x in rng.choice(K, size=int(rng.integers(1, K - 1)), replace=False))
        pv = np.ones(K)
        pv[rare] = 0.0
        pv = pv / pv.sum() * (1 - len(rare) / 1024.0)
        pv[rare] = 1 / 1024.0
        pv[[k for k in range(K) if k not in rare][0]] += 1.0 - pv.sum()
        if float(pv.sum()) != 1.0:
            continue
        n = int(rng.integers(1, 60))
        covs = [[1.0]] * K if d == 1 else [np.eye(d) for _ in range(K)]
        seed = int(rng.integers(0, 10 ** 6))
        ctx.case = dict(case, rep=rep, d=d, K=K, n=n, rare=rare, rs=seed)
        try:
            X, y = draw_gmm(n, means.tolist(), covs, pv.tolist(), random_state=seed)
        except Exception as e:
            ctx.violation("shapes", f"gmm-raises-on-a-valid-mixture/{type(e).__name__}", observed={"exc": repr(e)[:200], "pvals": pv, "n": n}, expected="(X, y)")
            continue
        ctx.count("rare_component_calls")
        X = np.asarray(X, dtype=float).reshape(n, -1)
        y = np.asarray(y)
        present = set(int(v) for v in np.unique(y))
        if len(present) < K and any(k not in present for k in range(int(max(present)) if present else 0)):
            ctx.count("rare_calls_with_a_skipped_inner_component")
        if X.shape != (n, d) or y.shape != (n,) or (n and (y.min() < 0 or y.max() >= K)):
            ctx.violation("shapes", "gmm-shape-or-label-range", observed={"X": list(X.shape), "y": list(y.shape)}, expected=[n, d])
            continue
        dist = np.linalg.norm(X - means[y.astype(int)], axis=1)
        if n and float(dist.max()) > 9.0 * np.sqrt(d):
            j = int(dist.argmax())
            nearest = int(np.argmin(np.linalg.norm(means - X[j], axis=1)))
            ctx.violation("statistics", "gmm/sample-not-from-the-component-of-its-label",
                          observed={"label": int(y[j]), "sample": X[j], "mean_of_label": means[int(y[j])], "nearest_component": nearest,
                                    "labels_present": sorted(present), "n": n, "K": K}, expected="within 9 standard deviations of its own component's mean")


def run_case(case, ctx, st):
    if case.get("kind") == "rare":
        return run_rare(case, ctx)
    from gemclus.data import draw_gmm, multivariate_student_t, gstm, celeux_one, celeux_two
    if case["kind"] == "invalid":
        eye = np.eye(2)
        bad = [
            ("gmm-length-mismatch-scale", lambda: draw_gmm(10, [[0, 0], [1, 1]], [eye, eye, eye], [0.5, 0.5])),
            ("gmm-length-mismatch-pvals", lambda: draw_gmm(10, [[0, 0], [1, 1]], [eye, eye], [0.25, 0.25, 0.5])),
            ("gmm-negative-proportion", lambda: draw_gmm(10, [[0, 0], [1, 1]], [eye, eye], [1.5, -0.5])),
            ("gmm-zero-proportion", lambda: draw_gmm(10, [[0, 0], [1, 1]], [eye, eye], [1.0, 0.0])),
            ("gmm-not-normalised", lambda: draw_gmm(10, [[0, 0], [1, 1]], [eye, eye], [0.5, 0.25])),
            ("gmm-not-normalised-above", lambda: draw_gmm(10, [[0, 0], [1, 1]], [eye, eye], [0.75, 0.5])),
            ("gmm-negative-eigenvalue", lambda: draw_gmm(10, [[0, 0], [1, 1]], [np.array([[1.0, 2.0], [2.0, 1.0]]), eye], [0.5, 0.5])),
            ("gmm-negative-definite", lambda: draw_gmm(10, [[0, 0], [1, 1]], [-eye, eye], [0.5, 0.5])),
            ("gmm-non-square", lambda: draw_gmm(10, [[0, 0], [1, 1]], [np.ones((2, 3)), np.ones((2, 3))], [0.5, 0.5])),
            ("gmm-wrong-dim-cov", lambda: draw_gmm(10, [[0, 0], [1, 1]], [np.eye(3), np.eye(3)], [0.5, 0.5])),
            ("gmm-1d-negative-variance", lambda: draw_gmm(10, [[0.0], [1.0]], [[-1.0], [1.0]], [0.5, 0.5])),
            ("gmm-1d-zero-variance", lambda: draw_gmm(10, [[0.0], [1.0]], [[0.0], [1.0]], [0.5, 0.5])),
            ("gmm-single-component", lambda: draw_gmm(10, [[0, 0]], [eye], [1.0])),
            ("student-shape-mismatch", lambda: multivariate_student_t(10, [0, 0, 0], eye)),
            ("student-non-square", lambda: multivariate_student_t(10, [0, 0], np.ones((2, 3)))),
            ("gstm-too-few", lambda: gstm(3)),
        ]
        for tag, fn in bad:
            ctx.case = dict(case, probe=tag)
            try:
                fn()
                ctx.violation("invalid-parameters", f"invalid-mixture-accepted/{tag}", observed="returned", expected="raises")
            except Exception:
                ctx.count("invalid_rejected")
        # covariances that are not positive semi-definite, in every dimension: one clearly negative eigenvalue hidden in
        # a random basis (all diagonal entries and all 2x2 minors may well be positive), and correlation patterns that
        # no distribution has (0.9, 0.9, -0.9)
        rng = gen.rng_for(case["seed"], ID, "invalid", 0)
        for t in range(60):
            d = int(rng.integers(2, 7))
            if t % 6 == 0 and d >= 3:
                C = np.eye(d)
                r = float(rng.uniform(0.75, 0.95))
                C[0, 1] = C[1, 0] = C[0, 2] = C[2, 0] = r
                C[1, 2] = C[2, 1] = -r
                lam_neg = float(np.min(np.linalg.eigvalsh(C)))
            else:
                Q, _ = np.linalg.qr(rng.normal(size=(d, d)))
                lam = rng.uniform(0.5, 2.0, size=d)
                lam_neg = -float(rng.choice([1e-3, 0.02, 0.1, 0.3, 1.0]))
                lam[int(rng.integers(0, d))] = lam_neg
                C = (Q * lam) @ Q.T
                C = (C + C.T) / 2
            C = C * float(10 ** rng.uniform(-1, 1))
            pos = int(rng.integers(0, 2))
            covs = [np.eye(d), np.eye(d)]
            covs[pos] = C
            ctx.case = dict(case, probe="gmm-indefinite-covariance", d=d, t=t)
            ctx.count("indefinite_covariances_tried")
            try:
                draw_gmm(50, [np.zeros(d), np.ones(d)], covs, [0.5, 0.5], random_state=0)
                ctx.violation("invalid-parameters", "invalid-mixture-accepted/gmm-indefinite-covariance",
                              observed={"d": d, "smallest_eigenvalue": float(np.min(np.linalg.eigvalsh(C))), "component": pos,
                                        "diagonal_min": float(np.min(np.diag(C)))}, expected="raises")
                break
            except Exception:
                ctx.count("invalid_rejected")
        return
    i = case["i"]
    rng = gen.rng_for(case["seed"], ID, "call", i)
    n = int(2e4) if case.get("tier") != "thorough" else int(rng.choice([2e4, 5e4, 2e5]))
    seed = gen.subseed(rng) % 100000
    which = ["gmm", "gmm", "gmm", "gmm1d", "student", "gstm", "celeux_one", "celeux_two"][i % 8]
    ctx.count("calls")

    def twice(fn):
        a = fn()
        b = fn()
        ctx.count("determinism_checks")
        fa = a if isinstance(a, tuple) else (a,)
        fb = b if isinstance(b, tuple) else (b,)
        if not all(np.array_equal(x, y) for x, y in zip(fa, fb)):
            ctx.violation("determinism", f"same-seed-different-output/{which}", observed="differs", expected="bit-identical")
        return a

    try:
        if which in ("gmm", "gmm1d"):
            d = 1 if which == "gmm1d" else int(rng.integers(2, 6))
            K = int(rng.integers(2, 6))
            means = rng.normal(scale=4.0, size=(K, d))
            props = dyadic(rng, K)
            if d == 1:
                covs = [np.array([[float(rng.uniform(0.2, 9.0))]]) for _ in range(K)]
                scale_arg = [[float(c[0, 0])] for c in covs]
                ctx.count("gmm_1d_calls")
            else:
                covs = [spd(rng, d) for _ in range(K)]
                if rng.random() < 0.4:
                    # the same mixture recorded in another unit (nanometres, thousands): a covariance is what it is at
                    # every magnitude, correlated coordinates stay correlated - half of these in a tiny unit, where
                    # every entry lies below the absolute tolerances numerical code likes to use (1e-8, 1e-12)
                    e10 = int(rng.integers(-14, -8)) if rng.random() < 0.5 else int(rng.integers(-8, 7))
                    unit = 10.0 ** e10
                    covs = [c * unit for c in covs]
                    means = means * math.sqrt(unit)
                    ctx.count("gmm_other_unit_calls")
                    if e10 <= -9:
                        ctx.count("gmm_tiny_unit_calls")
                scale_arg = covs
            ctx.case = dict(case, generator="draw_gmm", d=d, K=K, n=n, props=props, means=means, scale=[c.tolist() for c in covs], rs=seed)
            loc_arg, pv_arg = means.tolist(), props
            as_arrays = bool(rng.random() < 0.5)
            if as_arrays:
                # parameters handed over as float64 ndarrays (no defensive copy on the way in): the caller's arrays must
                # come back untouched and a second identical call must give the same draw
                loc_arg, scale_arg, pv_arg = np.array(means, dtype=np.float64), np.array(scale_arg, dtype=np.float64), np.array(props, dtype=np.float64)
                before = [a.copy() for a in (loc_arg, scale_arg, pv_arg)]
                ctx.count("gmm_ndarray_parameter_calls")
            X, y = twice(lambda: draw_gmm(n, loc_arg, scale_arg, pv_arg, random_state=seed))
            if as_arrays and not all(np.array_equal(a, b) for a, b in zip(before, (loc_arg, scale_arg, pv_arg))):
                ctx.violation("no-side-effect", "generator-modifies-its-arguments/draw_gmm" + ("-1d" if d == 1 else ""),
                              observed={"scale_before": before[1], "scale_after": scale_arg}, expected="unchanged")
            ctx.count("gmm_calls")
            if X.shape != (n, d) or y.shape != (n,) or not np.issubdtype(y.dtype, np.integer) or y.min() < 0 or y.max() >= K:
                ctx.violation("shapes", "gmm-shape-or-label-range", observed={"X": list(X.shape), "y": list(y.shape), "dtype": str(y.dtype)}, expected=[n, d])
                return
            check_labels(ctx, y, props, "gmm" + ("-1d" if d == 1 else ""))
            for k in range(K):
                check_gaussian_component(ctx, X[y == k], means[k], covs[k], f"component {k}", "gmm" + ("-1d" if d == 1 else ""))
            X2, y2 = draw_gmm(n, means.tolist(), [c.tolist() for c in covs] if d > 1 else [[float(c[0, 0])] for c in covs], props, random_state=seed + 1)
            if np.array_equal(X, X2):
                ctx.violation("determinism", "different-seeds-same-output/gmm", observed="equal", expected="different")
        elif which == "student":
            d = int(rng.integers(1, 5))
            df = float(rng.choice([0.5, 1.0, 2.5, 5.0, 12.0, 30.0]))
            loc = rng.normal(scale=3.0, size=d)
            S = spd(rng, d)
            singular = d >= 2 and rng.random() < 0.35
            if singular:
                # positive semi-definite but singular scale (documented as legal): samples live in loc + range(S)
                r = int(rng.integers(1, d))
                B = rng.normal(size=(d, r))
                S = B @ B.T
                ctx.count("student_singular_scale_calls")
            if rng.random() < 0.4:
                unit = 10.0 ** (int(rng.integers(-14, -8)) if rng.random() < 0.5 else int(rng.integers(-8, 7)))
                S = S * unit
                loc = loc * math.sqrt(unit)
                ctx.count("student_other_unit_calls")
            ctx.case = dict(case, generator="multivariate_student_t", d=d, df=df, n=n, loc=loc, scale=S.tolist(), rs=seed)
            S_before, loc_before = S.copy(), loc.copy()
            X = twice(lambda: multivariate_student_t(n, loc if i % 2 else loc.tolist(), S, df=df, random_state=seed))
            if not (np.array_equal(S, S_before) and np.array_equal(loc, loc_before)):
                ctx.violation("no-side-effect", "generator-modifies-its-arguments/multivariate_student_t", observed="changed", expected="unchanged")
            ctx.count("student_calls")
            if X.shape != (n, d):
                ctx.violation("shapes", "student-shape", observed=list(X.shape), expected=[n, d])
                return
            if singular:
                w, V = np.linalg.eigh(S)
                keep = w > 1e-9 * w.max()
                Y = (X - loc) @ V
                off = float(np.max(np.abs(Y[:, ~keep]))) if np.any(~keep) else 0.0
                scale_mag = math.sqrt(float(w.max()))
                # heavy tails: the largest of n draws can be huge, so the bound is relative to the largest coordinate seen
                if off > 1e-6 * max(scale_mag, float(np.max(np.abs(Y[:, keep])))):
                    ctx.violation("statistics", "student-t/samples-leave-range-of-scale", observed={"max_off_range": off}, expected="~0")
                Z = Y[:, keep] / np.sqrt(w[keep])
                ks_marginals(ctx, Z, df, "principal coordinates of a singular scale", "student-t-marginal-not-t")
                d = int(keep.sum())
                ctx.distinct(which, "singular", str(ctx.case.get("scale")))
                ctx.sample({k: v for k, v in ctx.case.items() if k in ("generator", "d", "n", "df")})
                return
            L = np.linalg.cholesky(S)
            Z = np.linalg.solve(L, (X - loc).T).T
            ks_marginals(ctx, Z, df, "whitened marginals", "student-t-marginal-not-t")
            # dependence structure: after whitening with the documented scale the coordinates are uncorrelated, so
            # Kendall's tau (distribution-free, valid for every df) must vanish: tau = 2/pi * arcsin(rho)
            if d >= 2:
                sub = Z[: min(n, 20000)]
                m = len(sub)
                for a_ in range(d):
                    for b_ in range(a_ + 1, d):
                        tau = stats.kendalltau(sub[:, a_], sub[:, b_]).statistic
                        se = math.sqrt(2 * (2 * m + 5) / (9 * m * (m - 1))) * 1.5     # 1.5: dependent (elliptical) tails
                        ztest(ctx, tau / se, f"Kendall tau of whitened coordinates {a_},{b_}", "student-t/dependence",
                              {"tau": float(tau)})
            if df > 4:
                check_gaussian_component_moments = X.mean(0)
                for j in range(d):
                    se = math.sqrt(S[j, j] * df / (df - 2) / n)
                    ztest(ctx, (check_gaussian_component_moments[j] - loc[j]) / se, f"location[{j}]", "student-t/location",
                          {"sample": float(check_gaussian_component_moments[j]), "documented": float(loc[j])})
        elif which == "gstm":
            alpha = float(rng.uniform(0.5, 4.0))
            df = float(rng.choice([1.0, 2.0, 5.0]))
            ctx.case = dict(case, generator="gstm", alpha=alpha, df=df, n=n, rs=seed)
            X, y = twice(lambda: gstm(n, alpha=alpha, df=df, random_state=seed))
            ctx.count("gstm_calls")
            if X.shape != (n, 2) or y.shape != (n,) or set(np.unique(y).tolist()) - {0, 1, 2, 3}:
                ctx.violation("shapes", "gstm-shape-or-labels", observed={"X": list(X.shape), "labels": np.unique(y)}, expected="(n,2), labels 0..3")
                return
            ng = 3 * n // 4
            if int(np.sum(y == 3)) != n - ng:
                ctx.violation("statistics", "gstm/student-share", observed=int(np.sum(y == 3)), expected=n - ng)
            locs = np.array([[1, 1], [1, -1], [-1, 1], [-1, -1]]) * alpha
            yg = y[y != 3].astype(int)
            check_labels(ctx, yg, [1 / 3, 1 / 3, 1 / 3], "gstm")
            for k in range(3):
                check_gaussian_component(ctx, X[y == k], locs[k], np.eye(2), f"gaussian {k}", "gstm")
            ks_marginals(ctx, X[y == 3] - locs[3], df, "student component", "gstm/student-component")
        elif which == "celeux_one":
            p = int(rng.integers(1, 8))
            mu = float(rng.uniform(0.5, 3.0))
            ctx.case = dict(case, generator="celeux_one", p=p, mu=mu, n=n, rs=seed)
            X, y = twice(lambda: celeux_one(n, p=p, mu=mu, random_state=seed))
            ctx.count("celeux_one_calls")
            if X.shape != (n, 5 + p) or y.shape != (n,) or y.min() < 0 or y.max() > 2:
                ctx.violation("shapes", "celeux_one-shape-or-labels", observed=list(X.shape), expected=[n, 5 + p])
                return
            check_labels(ctx, y, [1 / 3] * 3, "celeux_one")
            targets = [np.ones(5) * mu, -np.ones(5) * mu, np.zeros(5)]
            got = [X[y == k][:, :5].mean(0) for k in range(3)]
            assign = [int(np.argmin([np.linalg.norm(g - t) for t in targets])) for g in got]
            if sorted(assign) != [0, 1, 2]:
                ctx.violation("statistics", "celeux_one/component-means", observed={"means": got}, expected="{+mu, -mu, 0} * ones(5)")
                return
            for k in range(3):
                check_gaussian_component(ctx, X[y == k][:, :5], targets[assign[k]], np.eye(5), f"component {k}", "celeux_one")
                check_gaussian_component(ctx, X[y == k][:, 5:], np.zeros(p), np.eye(p), f"noise given label {k}", "celeux_one/noise")
            C = np.corrcoef(X.T)[:5, 5:]
            for a in range(5):
                for b in range(p):
                    ztest(ctx, C[a, b] * math.sqrt(n), f"corr(informative {a}, noise {b})", "celeux_one/noise-correlated", {"corr": float(C[a, b])})
        else:
            ctx.case = dict(case, generator="celeux_two", n=n, rs=seed)
            X, y = twice(lambda: celeux_two(n, random_state=seed))
            ctx.count("celeux_two_calls")
            if X.shape != (n, 14) or y.shape != (n,) or y.min() < 0 or y.max() > 3:
                ctx.violation("shapes", "celeux_two-shape-or-labels", observed=list(X.shape), expected=[n, 14])
                return
            check_labels(ctx, y, [0.25] * 4, "celeux_two")
            mus = [np.array([0, 0]), np.array([4, 0]), np.array([0, 2]), np.array([4, 2])]
            for k in range(4):
                check_gaussian_component(ctx, X[y == k][:, :2], mus[k], np.eye(2), f"component {k}", "celeux_two")
            b = np.array([[0.5, 1], [2, 0], [0, 3], [-1, 2], [2, -4], [0.5, 0], [4, 0.5], [3, 0], [2, 1]]).T
            a0 = np.array([0, 0, 0.4, 0.8, 1.2, 1.6, 2.0, 2.4, 2.8])
            r3 = np.array([[0.5, -math.sqrt(3) / 2], [math.sqrt(3) / 2, 0.5]])
            r6 = np.array([[math.sqrt(3) / 2, -0.5], [0.5, math.sqrt(3) / 2]])
            from scipy.linalg import block_diag
            Om = block_diag(np.eye(3), 0.5 * np.eye(2), r3.T @ np.diag([1.0, 3.0]) @ r3, r6.T @ np.diag([2.0, 6.0]) @ r6)
            G = X[:, :2]
            R = X[:, 2:11] - a0 - G @ b          # documented residuals: N(0, Omega), independent of G
            check_gaussian_component(ctx, R, np.zeros(9), Om, "residuals of columns 3-11", "celeux_two/linear-dependencies")
            D = np.column_stack([np.ones(n), G])
            coef, *_ = np.linalg.lstsq(D, X[:, 2:11], rcond=None)
            XtXinv = np.linalg.inv(D.T @ D)
            for j in range(9):
                for r, name_ in ((0, "intercept"), (1, "slope1"), (2, "slope2")):
                    want = a0[j] if r == 0 else b[r - 1, j]
                    se = math.sqrt(Om[j, j] * XtXinv[r, r])
                    ztest(ctx, (coef[r, j] - want) / se, f"{name_} of column {j + 3}", "celeux_two/linear-dependencies",
                          {"estimate": float(coef[r, j]), "documented": float(want)})
            check_gaussian_component(ctx, X[:, 11:14], np.array([3.2, 3.6, 4.0]), np.eye(3), "columns 12-14", "celeux_two/noise-columns")
            C = np.corrcoef(np.column_stack([G, X[:, 11:14]]).T)[:2, 2:]
            for a in range(2):
                for c in range(3):
                    ztest(ctx, C[a, c] * math.sqrt(n), "corr(informative, noise)", "celeux_two/noise-columns", {"corr": float(C[a, c])})
    except Exception as e:
        ctx.violation("call-completes", f"generator-raises/{which}/{type(e).__name__}", observed=repr(e)[:300], expected="returns (X, y)")
        return
    ctx.distinct(which, str({k: v for k, v in ctx.case.items() if k not in ("means", "scale", "loc")}))
    ctx.sample({k: v for k, v in ctx.case.items() if k in ("generator", "d", "K", "n", "df", "alpha", "mu", "p", "props")})
