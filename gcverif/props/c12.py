"""C12 - fitting is reproducible, history-independent and free of side effects.

Random call histories on one estimator object (incl. crashed fits injected at the optimiser hook), then a final fit /
path on reference data compared bit for bit with a fresh object; checksums of caller-side arrays around every public
call; get_params before / after; clone and set_params round trips.
"""
import copy
import hashlib
import warnings

import numpy as np

from .. import gen
from . import _train

ID = "C12"
NATIVE = True
RULE = ("all 18 estimators, random valid configurations with integer random_state; histories of 0..6 public calls drawn "
        "from {fit on other data of another shape, fit on the same data, fit_predict, predict, predict_proba, score, "
        "set_params changed then restored, path, clone, fit crashed by an injected fault at a random optimiser step, path "
        "crashed likewise} followed by a final fit (or path) on reference data; the final fitted state must equal, bit for "
        "bit, that of a fresh object, of a second fit on the same object and of a clone; caller arrays checksummed around "
        "every call; get_params compared by value and identity around fit; clone / set_params(**get_params()) round "
        "trips. One evaluation = one history. Non-trivial = history of length >= 1; distinct by (estimator, ops).")
ASSUMPTIONS = ["integer random_state only", "hyperparameter immutability is asserted for fit, predict, score and, at its return or raise, "
               "for path(): path() must give the same result when repeated (property text), which implies that it leaves "
               "alpha, dynamic and every other hyperparameter as it found them"]
EVAL_COUNTER = "histories"
REQUIRED = {"quick": dict({"kauri_precomputed_calls_without_matrix": 8, "histories": 450, "final_states_compared": 380, "side_effect_checks": 1200, "crashed_fits_injected": 60,
                           "paths_in_history": 40, "histories_reconfigured_for_good": 90, "final_paths_compared": 20, "clone_roundtrips": 400, "refits_compared": 400},
                          **{"hist:" + e: 12 for e in gen.ESTIMATORS}),
            "thorough": {"histories": 9000}}
SHARD_TIMEOUT = {"quick": 1200, "thorough": 7000}


def cases(tier, seed):
    n = 540 if tier == "quick" else 9900
    return [{"kind": "history", "seed": seed, "i": i} for i in range(n)]


class State(_train.Listener):
    def __init__(self, ctx):
        self.ctx = ctx
        self.tap = _train.TrainTap(ctx, self)

    def close(self):
        self.tap.close()


def setup(ctx):
    return State(ctx)


def reach_targets(reach):
    from gemclus._base_gemini import DiscriminativeModel
    reach.add_class(DiscriminativeModel, {"fit", "fit_predict", "predict", "predict_proba", "score"})
    import gemclus.sparse._base_sparse as bs
    reach.add_function(bs._path)


def digest(a):
    if a is None:
        return None
    a = np.ascontiguousarray(a)
    return hashlib.sha1(a.tobytes()).hexdigest() + str(a.shape) + str(a.dtype)


def state_of(est, name):
    if name == "Kauri":
        t = est.tree_
        return [np.asarray(est.labels_), np.asarray(est.leaves_), np.asarray(t.children_left), np.asarray(t.children_right),
                np.asarray([-1 if f is None else f for f in t.features]),
                np.asarray([np.nan if v is None else v for v in t.thresholds], dtype=float), np.asarray(t.target),
                np.asarray(t.gains, dtype=float)]
    return [np.array(w, copy=True) for w in est._get_weights()] + [np.asarray(est.labels_)]


def same_state(a, b):
    return len(a) == len(b) and all(x.shape == y.shape and np.array_equal(x, y, equal_nan=True) for x, y in zip(a, b))


def plain(v):
    """value of a hyperparameter irrespective of the numeric type that carries it: np.int64(3) and 3 are the same value (the
    workload hands integer hyperparameters over as NumPy integers in one estimator out of six)"""
    if isinstance(v, (bool, np.bool_)):
        return bool(v)
    if isinstance(v, np.integer):
        return int(v)
    if isinstance(v, np.floating):
        return float(v)
    if isinstance(v, dict):
        return {k: plain(x) for k, x in v.items()}
    if isinstance(v, (list, tuple)):
        return type(v)(plain(x) for x in v)
    return v


def params_snapshot(est):
    p = est.get_params()
    return {k: (id(v), repr(plain(v)) if not isinstance(v, np.ndarray) else digest(v)) for k, v in p.items()}


def gem_value(v):
    if hasattr(v, "__dict__") and type(v).__module__.startswith("gemclus"):
        return (type(v).__name__, sorted((k, repr(plain(x))) for k, x in vars(v).items()))
    if isinstance(v, np.ndarray):
        return digest(v)
    return repr(plain(v))


def run_case(case, ctx, st):
    from sklearn.base import clone
    i = case["i"]
    rng = gen.rng_for(case["seed"], ID, "history", i)
    names = list(gen.ESTIMATORS)
    name = names[i % len(names)]
    d = int(rng.integers(1, 4)) if name == "Douglas" else int(rng.integers(2, 5))
    n = int(rng.integers(8, 22))
    nonneg = bool(rng.random() < 0.15)
    kind = "nonneg" if nonneg else "blobs"
    Xref = gen.make_data(rng, n, d, kind)
    params, pre = gen.random_config(rng, name, n, d, max_iter=int(rng.integers(1, 5)), nonneg=nonneg)
    if name == "Douglas":
        params.pop("feature_mask", None)       # histories fit data of other widths
    if name in gen.SPARSE:
        params["groups"] = None if rng.random() < 0.6 else params.get("groups")
        if params["alpha"] == 0:
            params["alpha"] = 0.05
    forced_fallback = name == "Kauri" and (i // len(names)) % 2 == 0      # every other Kauri history, whatever the seed
    if name == "Kauri" and params.get("kernel") != "precomputed" and (forced_fallback or rng.random() < 0.35):
        params["kernel"], pre = "precomputed", "kernel"
    yref = gen.precomputed_for(rng, pre, n)
    is_kauri_pre = name == "Kauri" and params.get("kernel") == "precomputed"
    if is_kauri_pre:
        yref = gen.sym_matrix(rng, n, "psd")
    final_path = name in gen.SPARSE and rng.random() < 0.35 and d >= 2
    path_args = dict(alpha_multiplier=2.0, min_features=1, max_patience=2, restore_best_weights=bool(rng.random() < 0.6))
    ctx.case = dict(case, estimator=name, params=params, n=n, d=d, final_path=final_path)
    ctx.count("histories")
    ctx.count("hist:" + name)

    def other_data():
        n2 = int(rng.integers(6, 20))
        d2 = d if (params.get("groups") or rng.random() < 0.5) else int(rng.integers(1, 5))
        if name == "Douglas":
            d2 = min(d2, 3)
        X2 = gen.make_data(rng, n2, d2, kind)
        y2 = gen.precomputed_for(rng, pre, n2)
        if is_kauri_pre:
            y2 = gen.sym_matrix(rng, n2, "psd")
        return X2, y2

    def guarded(fn, X, y, what, check_params=True, obj=None):
        """run a public call, check caller arrays and hyperparameters are untouched (path drives alpha while it runs: what
        counts is the configuration it leaves behind when it returns or raises)"""
        hx, hy = digest(X), digest(y)
        obj = est if obj is None else obj
        before = params_snapshot(obj) if check_params else None
        out, exc = None, None
        try:
            with warnings.catch_warnings():
                warnings.simplefilter("ignore")
                out = fn()
        except _train.InjectedFault as e:
            exc = e
        except Exception as e:
            exc = e
        ctx.count("side_effect_checks")
        if digest(X) != hx or digest(y) != hy:
            ctx.violation("no-side-effect", f"caller-array-modified/{what}/{name}", observed={"call": what, "X_changed": digest(X) != hx,
                                                                                          "y_changed": digest(y) != hy}, expected="unchanged")
        if check_params:
            after = params_snapshot(obj)
            changed = sorted(k for k in before if before[k] != after.get(k))
            if changed:
                ctx.violation("hyperparameters-untouched", f"hyperparameter-modified-by-{what}/{name}",
                              observed={"changed": changed, "before": {k: before[k][1] for k in changed}, "after": {k: after[k][1] for k in changed}},
                              expected="unchanged")
        return out, exc

    # a share of the gradient estimators is wrapped by add_mlcl_constraint (the decoration lives on the instance)
    decorate = name != "Kauri" and n >= 6 and rng.random() < 0.3
    perm = [int(x) for x in rng.permutation(n)]
    mlcl = ([(perm[0], perm[1])], [(perm[2], perm[3])], float(rng.uniform(0.2, 2.0)))
    if decorate and name not in gen.NONPARAMETRIC and rng.random() < 0.7:
        params["batch_size"] = int(rng.integers(2, max(3, n - 1)))       # several shuffled batches per epoch
    ctx.case = dict(ctx.case, decorated=decorate, params=params)

    def build():
        e = gen.build_estimator(name, params)
        if decorate:
            from gemclus import add_mlcl_constraint
            e = add_mlcl_constraint(e, mlcl[0], mlcl[1], mlcl[2])
        return e

    if decorate:
        ctx.count("decorated_histories")
    # ---- reference: a fresh object ---------------------------------------------------------------------------
    fresh = build()
    try:
        ref_ret, ref_exc = guarded((lambda: fresh.path(Xref, yref, **path_args)) if final_path else (lambda: fresh.fit(Xref, yref)),
                                   Xref, yref, "path" if final_path else "fit", obj=fresh)
        if ref_exc is not None:
            raise ref_exc
        ref_state = state_of(fresh, name)
    except Exception as e:
        ctx.count("reference_raised:" + type(e).__name__)
        return
    # ---- the object with a history ---------------------------------------------------------------------------
    est = build()
    ops = []
    if rng.random() < 0.35:
        # the object starts its life under ANOTHER configuration (possibly fitted under it) and is then brought to the
        # configuration of the reference through set_params: "after any sequence of ... parameter changes ... the same
        # model"; every hyperparameter set_params reports is the one fit uses
        import copy as _copy
        START = {"learning_rate": lambda v: v * 3, "max_iter": lambda v: v + 2, "n_clusters": lambda v: v + 1,
                 "max_clusters": lambda v: v + 1, "alpha": lambda v: v * 2 + 0.01, "M": lambda v: v + 1.0,
                 "n_hidden_dim": lambda v: v + 1, "reg": lambda v: v + 0.5, "temperature": lambda v: v * 2,
                 "solver": lambda v: "sgd" if v == "adam" else "adam", "ovo": lambda v: not v,
                 "batch_size": lambda v: 3 if v is None else None,
                 "base_kernel": lambda v: ("rbf" if v != "rbf" else "linear") if isinstance(v, str) else v,
                 "kernel": lambda v: ("rbf" if v != "rbf" else "linear") if isinstance(v, str) and v != "precomputed" else v,
                 "kernel_params": lambda v: None if v else v, "metric_params": lambda v: None if v else v,
                 "metric": lambda v: ("manhattan" if v != "manhattan" else "euclidean") if v != "precomputed" else v,
                 "gemini": lambda v: ("tv_ova" if v != "tv_ova" else "mmd_ovo") if (isinstance(v, str) or v is None) and not pre else v}
        keys = [k for k in START if k in params]
        special = [k for k in keys if k in ("kernel", "metric", "ovo", "gemini", "base_kernel", "kernel_params", "metric_params")]
        chosen = set(int(x) for x in rng.integers(0, len(keys), size=2)) if keys else set()
        changed = {keys[j] for j in chosen} | ({special[int(rng.integers(0, len(special)))]} if special and rng.random() < 0.7 else set())
        start = dict(params)
        for k in changed:
            start[k] = START[k](params[k])
        changed = {k for k in changed if start[k] != params[k]}
        if changed:
            ops.append("born-as:" + ",".join(sorted(changed)))
            ctx.count("histories_reconfigured_for_good")
            try:
                e0 = gen.build_estimator(name, start)
                if decorate:
                    from gemclus import add_mlcl_constraint
                    e0 = add_mlcl_constraint(e0, mlcl[0], mlcl[1], mlcl[2])
                if rng.random() < 0.6:
                    with warnings.catch_warnings():
                        warnings.simplefilter("ignore")
                        try:
                            e0.fit(Xref, yref)
                            e0.score(Xref, yref)
                        except Exception:
                            pass
                e0.set_params(**{k: _copy.deepcopy(params[k]) for k in changed})
                est = e0
            except Exception as e:
                ctx.count("reconfigure_raised:" + type(e).__name__)
    fitted = False
    L = int(rng.integers(0, 7))
    menu = ["fit_other", "fit_same", "fit_predict", "query", "set_params", "clone", "crash_fit", "sibling"]
    if name in gen.SPARSE and d >= 2:
        menu += ["path", "crash_path", "path"]
    if is_kauri_pre:
        menu += ["documented_fallback", "documented_fallback", "documented_fallback"]
    forced_at = int(rng.integers(0, L + 1)) if forced_fallback else -1
    if forced_fallback:
        L += 1
    for step_no in range(L):
        op = "documented_fallback" if step_no == forced_at else menu[int(rng.integers(0, len(menu)))]
        ops.append(op)
        if op == "fit_other":
            X2, y2 = other_data()
            _, exc = guarded(lambda: est.fit(X2, y2), X2, y2, "fit")
            fitted = exc is None
            fitted_on = (X2, y2)
        elif op == "fit_same":
            _, exc = guarded(lambda: est.fit(Xref, yref), Xref, yref, "fit")
            fitted = exc is None
            fitted_on = (Xref, yref)
        elif op == "fit_predict":
            X2, y2 = other_data()
            _, exc = guarded(lambda: est.fit_predict(X2, y2), X2, y2, "fit_predict")
            fitted = exc is None
            fitted_on = (X2, y2)
        elif op == "query":
            if fitted:
                Xq, yq = fitted_on
                if name not in gen.NONPARAMETRIC and not (pre or is_kauri_pre):
                    Xq = gen.make_data(rng, int(rng.integers(1, 12)), Xq.shape[1], kind)
                    yq = None
                guarded(lambda: est.predict(Xq), Xq, None, "predict")
                if name != "Kauri":
                    guarded(lambda: est.predict_proba(Xq), Xq, None, "predict_proba")
                guarded(lambda: est.score(Xq, yq), Xq, yq, "score")
        elif op == "set_params":
            cur = est.get_params()
            alts = {"max_clusters": lambda v: v + 1, "n_clusters": lambda v: v + 1, "learning_rate": lambda v: v * 3,
                    "max_iter": lambda v: v + 2, "alpha": lambda v: v * 2 + 0.01, "M": lambda v: v + 1.0,
                    "n_hidden_dim": lambda v: v + 1, "reg": lambda v: v + 0.5, "n_cuts": lambda v: v + 1,
                    "temperature": lambda v: v * 2, "solver": lambda v: "sgd" if v == "adam" else "adam",
                    "ovo": lambda v: not v, "min_samples_leaf": lambda v: v,
                    "groups": lambda v: ([[0, 1]] if v is None else None) if d >= 2 else v,
                    "batch_size": lambda v: 3 if v is None else None,
                    "base_kernel": lambda v: "rbf" if v != "rbf" else "linear",
                    "base_kernel_params": lambda v: {"gamma": 0.77} if cur.get("base_kernel") in ("rbf", "laplacian", "poly", "polynomial", "sigmoid") else v,
                    "kernel": lambda v: ("rbf" if v != "rbf" else "linear") if isinstance(v, str) and v != "precomputed" else v,
                    "kernel_params": lambda v: {"gamma": 0.77} if cur.get("kernel") in ("rbf", "laplacian", "poly", "polynomial", "sigmoid") else v,
                    "metric": lambda v: ("manhattan" if v != "manhattan" else "euclidean") if v != "precomputed" else v,
                    "gemini": lambda v: ("tv_ova" if v != "tv_ova" else "mmd_ovo") if (isinstance(v, str) or v is None) and not pre else v}
            keys = [k for k in alts if k in cur and k != "min_samples_leaf"]
            special = [k for k in keys if k in ("base_kernel", "base_kernel_params", "kernel", "kernel_params", "metric", "gemini", "groups")]
            if special and rng.random() < 0.5:
                keys = special
            key = keys[int(rng.integers(0, len(keys)))]
            old = cur[key]
            new = alts[key](old)
            est.set_params(**{key: new})
            if rng.random() < 0.8:
                # on the reference data half of the time: state cached per data set under the changed value would then
                # be hit again by the final fit
                X2, y2 = (Xref, yref) if (key == "groups" or rng.random() < 0.5) else other_data()
                if key != "groups" or X2.shape[1] == d:
                    _, exc = guarded(lambda: est.fit(X2, y2), X2, y2, "fit")
                    fitted = exc is None
                    fitted_on = (X2, y2)
            est.set_params(**{key: old})
        elif op == "documented_fallback":
            # documented fall-backs are calls like any other: Kauri(kernel="precomputed") fitted / scored WITHOUT its matrix
            # warns and uses a linear kernel for that call - the hyperparameter stays "precomputed", later calls with the
            # matrix use the matrix
            if is_kauri_pre:
                guarded(lambda: est.fit(Xref), Xref, None, "fit")
                guarded(lambda: est.score(Xref), Xref, None, "score")
                ctx.count("kauri_precomputed_calls_without_matrix")
                fitted = False
        elif op == "sibling":
            # another object of the same class, configured differently, fitted on the very same arrays in between (what a
            # grid search does): nothing it leaves behind at class or module level may reach this object's next fit
            try:
                sib = clone(est)
                cur = sib.get_params()
                swaps = {"kernel": lambda v: ("rbf" if v != "rbf" else "linear") if isinstance(v, str) and v != "precomputed" else v,
                         "base_kernel": lambda v: "rbf" if v != "rbf" else "linear",
                         "metric": lambda v: ("manhattan" if v != "manhattan" else "euclidean") if v != "precomputed" else v,
                         "gemini": lambda v: ("tv_ova" if v != "tv_ova" else "mmd_ovo") if (isinstance(v, str) or v is None) and not pre else v,
                         "n_clusters": lambda v: v + 1, "max_clusters": lambda v: v + 1, "ovo": lambda v: not v,
                         "learning_rate": lambda v: v * 2, "n_hidden_dim": lambda v: v + 1, "n_cuts": lambda v: v + 1}
                ks = [k for k in swaps if k in cur]
                for k in [ks[int(j)] for j in rng.choice(len(ks), size=min(2, len(ks)), replace=False)]:
                    sib.set_params(**{k: swaps[k](cur[k])})
                sib.set_params(random_state=int(rng.integers(0, 10 ** 5)))
                with warnings.catch_warnings():
                    warnings.simplefilter("ignore")
                    sib.fit(Xref, yref)
                    sib.score(Xref, yref)
                ctx.count("sibling_fits")
            except Exception:
                ctx.count("sibling_raised")
        elif op == "clone":
            try:
                c = clone(est)
                del c
            except Exception as e:
                ctx.violation("round-trip", f"clone-raises/{name}", observed={"exc": repr(e)[:300], "params": params, "ops": ops}, expected="a clone")
                return
        elif op == "crash_fit":
            if name != "Kauri":
                st.tap.fail_at_step = int(rng.integers(0, 4))
                _, exc = guarded(lambda: est.fit(Xref, yref), Xref, yref, "fit")
                if isinstance(exc, _train.InjectedFault):
                    ctx.count("crashed_fits_injected")
                st.tap.fail_at_step = None
                fitted = fitted and exc is None
                fitted = False
        elif op in ("path", "crash_path"):
            X2, y2 = (Xref, yref) if rng.random() < 0.5 else other_data()
            if y2 is None and rng.random() < (0.75 if params.get("dynamic") else 0.4):
                # "y: ... Otherwise, it is not used": a matrix handed to a model that does not ask for one
                y2 = gen.sym_matrix(rng, len(X2), "psd")
                ctx.count("paths_with_unused_y")
            if X2.shape[1] >= 2:
                if op == "crash_path":
                    st.tap.fail_at_step = int(rng.integers(0, 40))
                _, exc = guarded(lambda: est.path(X2, y2, **path_args), X2, y2, "path")
                if isinstance(exc, _train.InjectedFault):
                    ctx.count("crashed_fits_injected")
                st.tap.fail_at_step = None
                ctx.count("paths_in_history")
                fitted = exc is None
                fitted_on = (X2, y2)
    ctx.case = dict(ctx.case, ops=ops)
    # ---- final call ------------------------------------------------------------------------------------------
    if final_path:
        ret, exc = guarded(lambda: est.path(Xref, yref, **path_args), Xref, yref, "path")
    else:
        ret, exc = guarded(lambda: est.fit(Xref, yref), Xref, yref, "fit")
    if exc is not None:
        ctx.violation("history-independence", f"final-call-raises-after-history/{name}/{type(exc).__name__}",
                      observed={"ops": ops, "exc": repr(exc)[:200]}, expected="same as a fresh object (which succeeded)")
        return
    ctx.count("final_states_compared")
    got = state_of(est, name)
    ok = same_state(got, ref_state)
    if final_path:
        ctx.count("final_paths_compared")
        ok = ok and same_state([np.asarray(w) for w in ret[0]], [np.asarray(w) for w in ref_ret[0]]) \
            and all(list(map(repr, ret[j])) == list(map(repr, ref_ret[j])) for j in range(1, 5))
    if not ok:
        last = [o for o in ops if o in ("path", "crash_path", "crash_fit", "fit_other", "fit_same", "fit_predict", "set_params")]
        tag = "after-path" if any(o in ("path", "crash_path") for o in ops) else ("after-crash" if "crash_fit" in ops else "after-fit")
        ctx.violation("history-independence", f"result-depends-on-history/{name}/{tag}/{'path' if final_path else 'fit'}",
                      observed={"ops": ops, "params": params}, expected="bit-identical to a fresh object")
    # second fit on the same object, and a clone
    if not final_path:
        r2, exc2 = guarded(lambda: est.fit(Xref, yref), Xref, yref, "fit")
        ctx.count("refits_compared")
        if exc2 is not None or not same_state(state_of(est, name), ref_state):
            ctx.violation("reproducible", f"refit-differs/{name}", observed={"ops": ops}, expected="bit-identical")
    else:
        r2, exc2 = guarded(lambda: est.path(Xref, yref, **path_args), Xref, yref, "path")
        ctx.count("refits_compared")
        if exc2 is not None or not same_state(state_of(est, name), ref_state) or \
                not all(list(map(repr, r2[j])) == list(map(repr, ref_ret[j])) for j in range(1, 5)):
            ctx.violation("reproducible", f"second-path-differs/{name}", observed={"ops": ops, "params": params,
                                                                                 "alphas_first": ref_ret[3][:3], "alphas_second": None if r2 is None else r2[3][:3]},
                          expected="bit-identical")
    if decorate:
        # consume the global NumPy generator between fits: nothing may depend on it when random_state is an integer
        np.random.seed(int(rng.integers(0, 2 ** 31 - 1)))
        np.random.random(int(rng.integers(1, 50)))
    try:
        c = clone(est)
    except Exception as e:
        # scikit-learn's clone refuses an estimator whose constructor does not store its arguments untouched
        ctx.violation("round-trip", f"clone-raises/{name}", observed={"exc": repr(e)[:300], "params": params, "ops": ops}, expected="a clone")
        return
    ctx.count("clone_roundtrips")
    pa, pb = est.get_params(), c.get_params()
    if sorted(pa) != sorted(pb) or any(gem_value(pa[k]) != gem_value(pb[k]) for k in pa):
        bad = [k for k in pa if k not in pb or gem_value(pa[k]) != gem_value(pb[k])]
        ctx.violation("round-trip", f"clone-does-not-round-trip/{name}", observed={"params": bad}, expected="equal hyperparameters")
    else:
        want = {k: gem_value(v) for k, v in gen.build_estimator(name, params).get_params().items()}   # decoration adds no hyperparameter
        have = {k: gem_value(v) for k, v in pa.items()}
        diff = [k for k in want if want[k] != have.get(k)]
        if diff:
            ctx.violation("hyperparameters-untouched", f"hyperparameters-differ-from-construction/{name}",
                          observed={"params": diff, "now": {k: have.get(k) for k in diff}, "constructed": {k: want[k] for k in diff}, "ops": ops},
                          expected="as constructed")
        try:
            with warnings.catch_warnings():
                warnings.simplefilter("ignore")
                if not final_path and not decorate:
                    c.fit(Xref, yref)
                    if not same_state(state_of(c, name), ref_state):
                        ctx.violation("reproducible", f"clone-fit-differs/{name}", observed={"ops": ops}, expected="bit-identical")
        except Exception as e:
            ctx.violation("reproducible", f"clone-fit-raises/{name}/{type(e).__name__}", observed=repr(e)[:200], expected="fits")
    e2 = gen.build_estimator(name, params)
    e2.set_params(**e2.get_params())
    p1, p2 = gen.build_estimator(name, params).get_params(), e2.get_params()
    if any(gem_value(p1[k]) != gem_value(p2[k]) for k in p1):
        ctx.violation("round-trip", f"set_params-get_params-does-not-round-trip/{name}", observed=[k for k in p1 if gem_value(p1[k]) != gem_value(p2[k])],
                      expected="equal")
    if L:
        ctx.distinct(name, tuple(ops), final_path)
        ctx.sample({"estimator": name, "ops": ops, "final": "path" if final_path else "fit"})
