"""Shared by C05 / C06: tap on the four proximal functions (every reference rebound) and their contracts."""
import numpy as np

from ..attach import Patcher
from ..refs import prox as ref

ULP4 = 4 * np.finfo(float).eps


class ProxTap:
    def __init__(self, ctx, on_call):
        """on_call(kind, args, result) with kind in linear/group_linear/mlp/group_mlp; called after every call."""
        import gemclus.sparse._prox_grad as pg
        self.patcher = Patcher()
        self.depth = 0
        cb = ctx.guard(on_call, "prox-tap")
        self.orig = {}
        for kind, name in (("linear", "linear_prox_grad"), ("group_linear", "group_linear_prox_grad"),
                           ("mlp", "mlp_prox_grad"), ("group_mlp", "group_mlp_prox_grad")):
            orig = getattr(pg, name)
            self.orig[kind] = orig

            def make(kind=kind, orig=orig):
                def wrapper(*a, **k):
                    args = [np.array(x, dtype=float, copy=True) if isinstance(x, np.ndarray) else x for x in a]
                    self.depth += 1
                    try:
                        res = orig(*a, **k)
                    finally:
                        self.depth -= 1
                    cb(kind, args, k, res, self.depth)
                    return res
                wrapper.__wrapped__ = orig
                wrapper.__name__ = orig.__name__
                return wrapper
            n = self.patcher.rebind(orig, make())
            ctx.count("rebound:" + name, n)

    def close(self):
        self.patcher.restore()


def check_group_lasso_rows(ctx, rows_in, rows_out, alpha, tag):
    """rows_in / rows_out: list of (flattened) vectors; each output must be the group-lasso prox of its input."""
    for w, z in zip(rows_in, rows_out):
        w = np.asarray(w, dtype=float).ravel()
        z = np.asarray(z, dtype=float).ravel()
        zref, nrm = ref.group_lasso(w, alpha)
        scale = max(1.0, nrm)
        ctx.count("gl_rows")
        if not np.all(np.isfinite(w)):
            ctx.count("gl_rows_nonfinite_input_skipped")
            continue
        boundary = abs(nrm - alpha) <= ULP4 * max(nrm, alpha, 1e-300)
        if nrm <= alpha and not boundary:
            ctx.count("gl_rows_zeroed")
            if np.any(z != 0):
                ctx.violation("group-lasso-prox", f"group-lasso-not-exact-zero/{tag}",
                              observed={"w": w, "alpha": alpha, "returned": z}, expected="exact zeros")
                return False
        elif not boundary:
            ctx.count("gl_rows_shrunk")
            if not np.all(np.abs(z - zref) <= 1e-12 * scale):
                ctx.violation("group-lasso-prox", f"group-lasso-wrong-shrinkage/{tag}",
                              observed={"w": w, "alpha": alpha, "returned": z}, expected={"reference": zref})
                return False
        else:
            ctx.count("gl_rows_boundary")
        ctx.distinct("gl", tag, len(w), w.tobytes().hex()[:48], float(alpha))
    return True


def check_hier_rows(ctx, v_rows, u_rows, b_rows, t_rows, alpha, M, tag, rng=None):
    for v, u, b, th in zip(v_rows, u_rows, b_rows, t_rows):
        v, u = np.asarray(v, float).ravel(), np.asarray(u, float).ravel()
        b, th = np.asarray(b, float).ravel(), np.asarray(th, float).ravel()
        ctx.count("hier_rows")
        nv = float(np.sqrt(np.sum(v ** 2)))
        if nv == 0:
            if np.all(u == 0) and alpha > 0:
                ctx.count("hier_rows_zero_in_scope")
                if np.any(b != 0) or np.any(th != 0) or not (np.all(np.isfinite(b)) and np.all(np.isfinite(th))):
                    ctx.violation("hier-prox", f"hier-zero-row-not-zero/{tag}",
                                  observed={"beta": b, "theta": th, "alpha": alpha, "M": M}, expected="zeros")
                    return False
            else:
                ctx.count("hier_rows_zero_skip_out_of_scope")
            continue
        if not (np.all(np.isfinite(v)) and np.all(np.isfinite(u))):
            ctx.count("hier_rows_nonfinite_input_skipped")
            continue
        bref, tref, tstar, fstar = ref.hier_prox(v, u, alpha, M)
        scale = max(1.0, nv, float(np.max(np.abs(u))) if u.size else 0.0)
        nb = float(np.sqrt(np.sum(b ** 2)))
        obs = {"v": v, "u": u, "alpha": alpha, "M": M, "beta": b, "theta": th}
        if not (np.all(np.isfinite(b)) and np.all(np.isfinite(th))):
            ctx.violation("hier-prox", f"hier-nonfinite/{tag}", observed=obs, expected="finite")
            return False
        if np.any(np.abs(th) > M * nb + 1e-12 * scale * max(1.0, M)):
            ctx.violation("hier-prox", f"hier-infeasible/{tag}", observed=obs,
                          expected={"bound": M * nb, "reference_beta": bref, "reference_theta": tref})
            return False
        fobs = ref.hier_objective(b, th, v, u, alpha)
        if fobs > fstar + 1e-10 * max(1.0, abs(fstar)) * scale:
            ctx.violation("hier-prox", f"hier-not-optimal/{tag}", observed=dict(obs, objective=fobs),
                          expected={"optimum": fstar, "t_star": tstar, "reference_beta": bref, "reference_theta": tref})
            return False
        if np.max(np.abs(b - bref)) > 1e-8 * scale or np.max(np.abs(th - tref)) > 1e-8 * scale * max(1.0, M):
            ctx.violation("hier-prox", f"hier-differs-from-unique-minimiser/{tag}", observed=obs,
                          expected={"reference_beta": bref, "reference_theta": tref})
            return False
        if rng is not None:
            # closed-form-free certificate: not beaten by random feasible perturbations
            for _ in range(8):
                bb = b + rng.normal(scale=10 ** rng.uniform(-6, -1) * scale, size=b.shape)
                tt = th + rng.normal(scale=10 ** rng.uniform(-6, -1) * scale, size=th.shape)
                cap = M * float(np.sqrt(np.sum(bb ** 2)))
                tt = np.clip(tt, -cap, cap)
                if ref.hier_objective(bb, tt, v, u, alpha) < fobs - 1e-10 * max(1.0, abs(fobs)) * scale:
                    ctx.violation("hier-prox", f"hier-beaten-by-perturbation/{tag}", observed=obs,
                                  expected={"better_beta": bb, "better_theta": tt})
                    return False
            ctx.count("hier_perturbation_certificates")
        ctx.count("hier_rows_compared")
        if tstar == 0:
            ctx.count("hier_rows_killed")
        elif np.any(np.abs(tref) < np.abs(u) - 1e-15):
            ctx.count("hier_rows_clipped_active")
        ctx.distinct("hier", tag, len(v), len(u), v.tobytes().hex()[:32], u.tobytes().hex()[:32], float(alpha), float(M))
    return True


def contract(ctx, kind, args, kwargs, res, rng=None, tag="direct"):
    """Post-condition of one call of one of the four proximal functions."""
    ctx.count("prox_calls:" + kind)
    if kind == "linear":
        W, alpha = args[0], float(args[1] if len(args) > 1 else kwargs["alpha"])
        out = np.asarray(res)
        if out.shape != W.shape:
            ctx.violation("group-lasso-prox", f"prox-shape/{tag}", observed=list(out.shape), expected=list(W.shape))
            return
        check_group_lasso_rows(ctx, list(W), list(out), alpha, tag + "/linear")
    elif kind == "group_linear":
        groups, W, alpha = args[0], args[1], float(args[2])
        out = np.asarray(res)
        if out.shape != W.shape:
            ctx.violation("group-lasso-prox", f"prox-shape/{tag}", observed=list(out.shape), expected=list(W.shape))
            return
        check_group_lasso_rows(ctx, [W[g] for g in groups], [out[g] for g in groups], alpha, tag + "/group_linear")
        ctx.count("group_calls_checked")
    elif kind == "mlp":
        Ws, W1, alpha, M = args[0], args[1], float(args[2]), float(args[3])
        b, th = res
        b, th = np.asarray(b), np.asarray(th)
        if b.shape != Ws.shape or th.shape != W1.shape:
            ctx.violation("hier-prox", f"prox-shape/{tag}", observed=[list(b.shape), list(th.shape)],
                          expected=[list(Ws.shape), list(W1.shape)])
            return
        check_hier_rows(ctx, list(Ws), list(W1), list(b), list(th), alpha, M, tag + "/mlp", rng)
    elif kind == "group_mlp":
        groups, Ws, W1, alpha, M = args[0], args[1], args[2], float(args[3]), float(args[4])
        b, th = res
        b, th = np.asarray(b), np.asarray(th)
        if b.shape != Ws.shape or th.shape != W1.shape:
            ctx.violation("hier-prox", f"prox-shape/{tag}", observed=[list(b.shape), list(th.shape)],
                          expected=[list(Ws.shape), list(W1.shape)])
            return
        check_hier_rows(ctx, [Ws[g] for g in groups], [W1[g] for g in groups], [b[g] for g in groups],
                        [th[g] for g in groups], alpha, M, tag + "/group_mlp", rng)
        ctx.count("group_calls_checked")
