"""C18 - predictions are per-sample functions of the fitted model."""
import numpy as np

from .. import gen
from ..attach import Patcher

ID = "C18"
NATIVE = True
RULE = ("every inductive estimator (all but the nonparametric ones, Kauri included) fitted on random configurations; query "
        "arrays of fresh points and training points; predict / predict_proba on the whole array vs row subsets of sizes "
        "1..m, permutations, single rows, duplicated rows (1e-9 on probabilities, labels where the top-two margin exceeds "
        "1e-9, Kauri exactly); predict(X_train) == labels_; training-set probabilities == the probabilities computed by "
        "the last forward pass of fit (captured by an _infer hook); plus large query arrays of 2^k-1 / 2^k / 2^k+1 rows (k 8..17, Douglas with up to 2^10 leaves) whose first, last, block-boundary and random rows are compared with the row predicted alone. One evaluation = one (fit, query transformation). "
        "Non-trivial = subset of >= 1 rows of an array with >= 2 rows; distinct by (estimator, parameters, index set).")
ASSUMPTIONS = ["BLAS blocking may change the last bits of a product: probabilities are compared to 1e-9 absolute"]
EVAL_COUNTER = "comparisons"
REQUIRED = {"quick": dict({"comparisons": 2500, "single_row_comparisons": 600, "fit_final_forward_compared": 300,
                           "train_predict_equals_labels": 350, "big_batches": 35, "kauri_fits_far_from_origin": 8, "big_rows_compared": 900},
                          **{"fit:" + e: 15 for e in gen.ESTIMATORS if e not in gen.NONPARAMETRIC}),
            "thorough": {"comparisons": 40000}}
SHARD_TIMEOUT = {"quick": 1200, "thorough": 7000}
INDUCTIVE = [e for e in gen.ESTIMATORS if e not in gen.NONPARAMETRIC]


def cases(tier, seed):
    n = 640 if tier == "quick" else 9000
    nb = 64 if tier == "quick" else 900
    return [{"kind": "fit", "seed": seed, "i": i} for i in range(n)] + [{"kind": "big", "seed": seed, "i": i} for i in range(nb)]


class State:
    def __init__(self, ctx):
        self.ctx = ctx
        self.patcher = Patcher()
        self.last_forward = {}
        seen = set()
        for name in gen.GRADIENT_ESTIMATORS:
            for cls in gen.get_class(name).__mro__:
                if "_infer" in vars(cls) and cls not in seen and not getattr(vars(cls)["_infer"], "__isabstractmethod__", False):
                    seen.add(cls)
                    self.patcher.setattr(cls, "_infer", self._wrap(vars(cls)["_infer"]))

    def _wrap(self, orig):
        st = self

        def _infer(self, X, retain=True):
            out = orig(self, X, retain)
            if retain:
                st.last_forward[id(self)] = (np.array(out, copy=True), len(X))
            return out
        _infer.__wrapped__ = orig
        return _infer

    def close(self):
        self.patcher.restore()


def setup(ctx):
    return State(ctx)


def reach_targets(reach):
    from gemclus._base_gemini import DiscriminativeModel
    reach.add_class(DiscriminativeModel, {"predict", "predict_proba"})
    reach.add_class(gen.get_class("KernelRIM"), {"predict_proba", "_compute_kernel"})
    from gemclus.tree.kauri import Tree
    reach.add_class(Tree, {"predict"})


def run_big(case, ctx, st):
    """Large query arrays (2^k - 1, 2^k, 2^k + 1 rows, k = 8..17): an implementation that evaluates long inputs block by
    block must give every row - the first and the last of each block included - what it gets when predicted alone.
    Douglas is given many leaves here (up to 2^10), so that any leaf-count-dependent blocking has small blocks."""
    i = case["i"]
    rng = gen.rng_for(case["seed"], ID, "big", i)
    pool = INDUCTIVE + ["Douglas"] * 6
    name = pool[i % len(pool)]
    n = int(rng.integers(6, 16))
    d = int(rng.integers(1, 5))
    params, _ = gen.random_config(rng, name, n, d, max_iter=int(rng.integers(1, 3)), allow_precomputed=False)
    if name == "Douglas":
        d = int(rng.integers(3, 11))
        params.pop("feature_mask", None)
        params["n_cuts"] = 1 if d > 6 else int(rng.integers(1, 3))
        params["gemini"] = "mmd_ova"
    X = gen.make_data(rng, n, d, "blobs")
    k = int(rng.integers(8, 18 if name not in ("KernelRIM",) else 15))
    m = 2 ** k + int(rng.integers(-1, 2))
    if name == "Douglas":
        leaves = (params["n_cuts"] + 1) ** d
        m = min(m, max(257, (2 ** 24) // leaves + 1))      # keep the membership matrix below ~128 MB
    ctx.case = dict(case, estimator=name, params=params, n=n, d=d, rows=m)
    est = gen.build_estimator(name, params)
    try:
        est.fit(X)
    except Exception as e:
        ctx.count("fit_raised:" + type(e).__name__)
        return
    Q = gen.make_data(rng, m, d, "blobs") * float(rng.uniform(0.5, 2.0))
    is_kauri = name == "Kauri"
    try:
        full_l = np.asarray(est.predict(Q))
        full_p = None if is_kauri else np.array(est.predict_proba(Q), copy=True)
        if full_p is not None and not np.all(np.isfinite(full_p)):
            ctx.count("big_nonfinite_skipped")
            return
        picks = [0, 1, m - 2, m - 1] + [int(x) for x in rng.integers(0, m, size=12)]
        picks += [2 ** j + o for j in range(8, 18) for o in (-1, 0) if 0 <= 2 ** j + o < m][:12]
        ctx.count("big_batches")
        ctx.count("big_rows_compared", len(picks))
        for r in picks:
            one = Q[r:r + 1]
            ctx.count("comparisons")
            if is_kauri:
                ok = np.array_equal(np.asarray(est.predict(one)), full_l[r:r + 1])
                diff = None
            else:
                sp = np.asarray(est.predict_proba(one))
                diff = float(np.max(np.abs(sp - full_p[r:r + 1]))) if sp.shape == (1, full_p.shape[1]) else float("inf")
                ok = diff <= 1e-9
            if not ok:
                ctx.violation("per-sample", f"row-of-a-large-batch-differs-from-the-row-alone/{name}",
                              observed={"rows": m, "row": r, "max_abs_diff": diff, "params": params, "d": d}, expected="<= 1e-9")
                break
        ctx.distinct(name, str(params), m)
    except Exception as e:
        ctx.violation("per-sample", f"prediction-raises/{name}/{type(e).__name__}", observed={"exc": repr(e)[:300], "rows": m}, expected="predictions")


def run_case(case, ctx, st):
    if case.get("kind") == "big":
        return run_big(case, ctx, st)
    i = case["i"]
    rng = gen.rng_for(case["seed"], ID, "fit", i)
    name = INDUCTIVE[i % len(INDUCTIVE)]
    d = int(rng.integers(1, 4)) if name == "Douglas" else int(rng.integers(1, 6))
    n = int(rng.integers(4, 35))
    nonneg = bool(rng.random() < 0.15)
    X = gen.make_data(rng, n, d, "nonneg" if nonneg else ["blobs", "ties"][int(rng.integers(0, 2))])
    far = None
    if name == "Kauri" and rng.random() < 0.4:
        # features recorded far from the origin (time stamps, projected coordinates, identifiers): neighbouring values
        # differ in the 8th..12th significant digit only - still different numbers
        far = (float(rng.choice([1.0, 60.0, 1e-3])), float(rng.choice([1.7e9, 4.2e6, -3.1e11, 2.0 ** 40] if not nonneg else [1.7e9, 4.2e6, 2.0 ** 40])))
        X = X * far[0] + far[1]
        ctx.count("kauri_fits_far_from_origin")
    params, pre = gen.random_config(rng, name, n, d, nonneg=nonneg, allow_precomputed=False)
    est = gen.build_estimator(name, params)
    ctx.case = dict(case, estimator=name, params=params, n=n, d=d)
    ctx.count("fit:" + name)
    try:
        est.fit(X)
    except Exception as e:
        ctx.count("fit_raised:" + type(e).__name__)
        return
    is_kauri = name == "Kauri"
    labels = np.asarray(est.labels_)
    mech_base = name
    try:
        pred_train = np.asarray(est.predict(X))
        ctx.count("train_predict_equals_labels")
        if not np.array_equal(pred_train, labels):
            ctx.violation("train-reproduces-fit", f"predict-train-differs-from-labels/{mech_base}",
                          observed={"predict": pred_train, "labels_": labels}, expected="equal")
        if not is_kauri:
            P_train = np.asarray(est.predict_proba(X))
            lf = st.last_forward.get(id(est))
            if lf is not None and lf[1] == n:
                ctx.count("fit_final_forward_compared")
                if lf[0].shape != P_train.shape or float(np.max(np.abs(lf[0] - P_train))) > 1e-9:
                    ctx.violation("train-reproduces-fit", f"train-probabilities-differ-from-fit/{mech_base}",
                                  observed={"max_abs_diff": float(np.max(np.abs(lf[0] - P_train))) if lf[0].shape == P_train.shape else "shape"},
                                  expected="<= 1e-9")
        # same-shape *views* of the very array given to fit (reversed rows): memory is shared, rows are not the same
        if not is_kauri and n >= 2:
            ctx.count("training_view_comparisons")
            Pv = np.asarray(est.predict_proba(X[::-1]))
            if Pv.shape != P_train.shape or float(np.nanmax(np.abs(Pv - P_train[::-1]))) > 1e-9:
                ctx.violation("per-sample", f"probabilities-depend-on-other-rows/{mech_base}",
                              observed={"query": "X_train[::-1] (a view)", "max_abs_diff": float(np.nanmax(np.abs(Pv - P_train[::-1])))},
                              expected="<= 1e-9")
        elif is_kauri and n >= 2:
            ctx.count("training_view_comparisons")
            if not np.array_equal(np.asarray(est.predict(X[::-1])), pred_train[::-1]):
                ctx.violation("per-sample", f"routing-depends-on-other-rows/{mech_base}", observed={"query": "X_train[::-1] (a view)"}, expected="equal")
        m = int(rng.integers(2, 25))
        fresh = gen.make_data(rng, m, d, "nonneg" if nonneg else "blobs") * float(rng.uniform(0.5, 2.0))
        if far is not None:
            fresh = fresh * far[0] + far[1]
        Q = np.vstack([fresh, X[rng.integers(0, n, size=min(n, 6))]])
        full_l = np.asarray(est.predict(Q))
        full_p_obj = None if is_kauri else est.predict_proba(Q)
        full_p = None if is_kauri else np.array(full_p_obj, copy=True)
        sets = [rng.permutation(len(Q))]                                  # permutation
        sets += [np.array([int(rng.integers(0, len(Q)))]) for _ in range(3)]  # single rows
        sets += [np.sort(rng.choice(len(Q), size=int(rng.integers(1, len(Q) + 1)), replace=False)) for _ in range(3)]
        sets += [rng.integers(0, len(Q), size=int(rng.integers(2, 9)))]      # with repeated rows
        for idx in sets:
            sub = Q[idx]
            ctx.count("comparisons")
            if len(idx) == 1:
                ctx.count("single_row_comparisons")
            sl = np.asarray(est.predict(sub))
            if is_kauri:
                if not np.array_equal(sl, full_l[idx]):
                    ctx.violation("per-sample", f"routing-depends-on-other-rows/{mech_base}", observed={"idx": idx, "subset": sl, "full": full_l[idx]},
                                  expected="equal")
                    break
            else:
                sp = np.asarray(est.predict_proba(sub))
                if sp.shape != (len(idx), full_p.shape[1]) or float(np.max(np.abs(sp - full_p[idx]))) > 1e-9:
                    ctx.violation("per-sample", f"probabilities-depend-on-other-rows/{mech_base}",
                                  observed={"idx": idx, "max_abs_diff": float(np.max(np.abs(sp - full_p[idx]))) if sp.shape == full_p[idx].shape else "shape"},
                                  expected="<= 1e-9")
                    break
                top2 = np.sort(full_p[idx], axis=1)
                clear = (top2[:, -1] - top2[:, -2] > 1e-9) if top2.shape[1] >= 2 else np.ones(len(idx), dtype=bool)
                if not np.array_equal(sl[clear], full_l[idx][clear]):
                    ctx.violation("per-sample", f"labels-depend-on-other-rows/{mech_base}", observed={"idx": idx}, expected="equal")
                    break
            ctx.distinct(name, str(params), tuple(int(x) for x in idx))
        # a returned array belongs to the caller: later calls on other rows must not rewrite it
        if full_p_obj is not None:
            ctx.count("earlier_result_intact_checks")
            if not np.array_equal(np.asarray(full_p_obj), full_p, equal_nan=True):
                ctx.violation("per-sample", f"earlier-result-overwritten-by-later-call/{mech_base}",
                              observed={"max_abs_change": float(np.max(np.abs(np.asarray(full_p_obj) - full_p)))},
                              expected="the array returned by predict_proba keeps its values")
        ctx.sample({"estimator": name, "n_query": len(Q), "sets": len(sets)})
    except Exception as e:
        ctx.violation("api", f"predict-raises/{mech_base}/{type(e).__name__}", observed=repr(e)[:300], expected="predictions")
    finally:
        st.last_forward.pop(id(est), None)
