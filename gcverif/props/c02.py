"""C02 - GEMINI gradients are the exact derivative of the returned score.

Monitor on every evaluate(..., return_grad=True): (i) same score with/without gradient, (ii) gradient shape,
(iii) zero gradient on clipped entries, (iv) numeric-derivative oracle through the soft-max parameterisation and
along straight tangent directions of the simplex.  Kinks are detected and skipped, never reported.
"""
import numpy as np

from .. import gen, numdiff
from . import _gem

ID = "C02"
RULE = ("every evaluate(return_grad=True) call of the direct workload (all classes/kernels/metrics, n 1..14, K 2..6, "
        "logit scales 0.1..30) and every 2nd such call inside real fits; per call: k random logit coordinates + "
        "m random tangent directions, each compared with a Richardson central-difference derivative of the ORIGINAL "
        "evaluate. Non-trivial = P interior, >=1 smooth coordinate compared and the tangent gradient has norm > 1e-12; "
        "distinct by (class, ovo, shape, hash of P).")
ASSUMPTIONS = ["finite-difference derivative with Richardson extrapolation is accurate to ~1e-6 relative on smooth "
               "coordinates; coordinates failing the smoothness test at h=1e-4 and 1e-6 are treated as kinks and skipped"]
EVAL_COUNTER = "grad_calls"
REQUIRED = {"quick": {"grad_calls_beyond_2^20_elements": 10, "grad_calls": 1500, "coords_compared": 4000, "dirs_compared": 1500, "clipped_entries_checked": 200,
                      "same_score_checked": 1500, "insitu_calls_checked": 50, "inplace_refreshed_grad_calls": 120,
                      "cmp:KLGEMINI": 100, "cmp:TVGEMINI": 100, "cmp:HellingerGEMINI": 100, "cmp:ChiSquareGEMINI": 100,
                      "cmp:MMDGEMINI": 200, "cmp:WassersteinGEMINI": 200},
            "thorough": {"grad_calls": 20000, "coords_compared": 100000, "insitu_calls_checked": 1000}}
SHARD_TIMEOUT = {"quick": 900, "thorough": 5400}
REPOTESTS = {"thorough": 16}      # the repository's own test-suite, in 16 parts, under the same monitors


def cases(tier, seed):
    nd, nf = (2400, 64) if tier == "quick" else (40000, 800)
    out = [{"kind": "direct", "seed": seed, "i0": i, "i1": min(i + 25, nd), "tier": tier} for i in range(0, nd, 25)]
    out += [{"kind": "fit", "seed": seed, "i": i, "tier": tier} for i in range(nf)]
    return out


class State:
    def __init__(self, ctx):
        self.ctx = ctx
        self.mode = "direct"
        self.ncoords = 6
        self.ndirs = 2
        self.rng = np.random.default_rng(0)
        self.fitcall = 0
        self.tap = _gem.GeminiTap(self.on_eval, ctx)

    def close(self):
        self.tap.close()

    def on_eval(self, gem, P, A, return_grad, res, orig):
        if not return_grad:
            return
        ctx = self.ctx
        ctx.count("grad_calls")
        if P.ndim == 2 and P.shape[0] * P.shape[1] ** 2 > 2 ** 20:
            ctx.count("grad_calls_beyond_2^20_elements")
        cname = [c.__name__ for c in type(gem).__mro__ if c.__name__ in _gem.CONCRETE][0]
        mech = f"{cname}-{'ovo' if gem.ovo else 'ova'}"
        if not (isinstance(res, tuple) and len(res) == 2):
            ctx.violation("return-shape", "grad-not-returned/" + mech, observed=repr(res)[:200], expected="(score, grad)")
            return
        value, g = res
        g = np.asarray(g)
        # (ii) shape
        if g.shape != P.shape:
            ctx.violation("gradient-shape", "grad-shape/" + mech, observed=list(g.shape), expected=list(P.shape))
            return
        if self.mode == "fit":
            self.fitcall += 1
            if self.fitcall % 2:
                return
            ctx.count("insitu_calls_checked")
        # (i) same score with and without the gradient
        v2 = orig(gem, np.array(P, copy=True), A, False)      # same values, same memory layout as the observed call
        ctx.count("same_score_checked")
        va, vb = float(np.asarray(value).reshape(-1)[0]), float(np.asarray(v2).reshape(-1)[0])
        if not (abs(va - vb) <= 1e-12 * max(1.0, abs(va)) or (va != va and vb != vb)):
            ctx.violation("same-score", "score-differs-with-grad/" + mech, observed={"with": va, "without": vb, "P": P},
                          expected="equal")
        # (iii) clipped entries
        eps = gem.epsilon
        clipped = (P <= eps) | (P >= 1 - eps)
        nclip = int(clipped.sum())
        if nclip:
            ctx.count("clipped_entries_checked", nclip)
            ctx.count("calls_with_clipping")
            if np.any(g[clipped] != 0) or not np.all(np.isfinite(g)):
                ctx.violation("clipped-zero-grad", "clipped-entry-nonzero-grad/" + mech,
                              observed={"grad_on_clipped": g[clipped][:8], "P": P}, expected="exact zeros")
        N, K = P.shape
        good_rows = np.arange(N)
        if not _gem.interior(P, eps):
            # Points with entries below epsilon (or above 1-epsilon) are still interior points of the simplex as long as
            # every entry is positive: the returned score is flat in the clipped entries and smooth in the others.  The
            # derivative is taken row by row (one row moves through its soft-max parameterisation, the others stay
            # where they are), so only the moving row has to stay clear of the clipping boundaries (kinks) and of
            # exact zeros (no logit); a direction moves all the rows that qualify at once.
            rows_ok = P.ndim == 2 and P.size > 0 and bool(np.all(np.abs(P.sum(1) - 1.0) <= 1e-9))
            bad = ~np.all(P > 0, axis=1) | np.any(((P > eps / 4) & (P < 4 * eps)) | ((P > 1 - 4 * eps) & (P < 1 - eps / 4)), axis=1)
            good_rows = np.flatnonzero(~bad)
            if not rows_ok or len(good_rows) == 0:
                ctx.count("not_interior_no_derivative_check")
                return
            ctx.count("partially_clipped_derivative_checks")
            if eps > 1e-11:
                ctx.count("partially_clipped_checks_with_user_epsilon")
        if not np.all(np.isfinite(g)):
            ctx.violation("finite-grad", "nonfinite-grad-interior/" + mech, observed={"P": P, "grad": g},
                          expected="finite")
            return
        # (iv) numeric-derivative oracle
        L = np.log(np.where(P > 0, P, 1.0))
        G = P * (g - (P * g).sum(1, keepdims=True))          # d score / d logits implied by the returned gradient
        gscale = float(np.max(np.abs(G))) if G.size else 0.0

        def F(Pt):
            return float(np.asarray(orig(gem, Pt, A, False)).reshape(-1)[0])

        ferr = _gem.score_abs_err(gem, P, A)
        # round-off of the monitor's own projection of g onto the tangent space
        proj_floor = 1e4 * numdiff.EPS * float(np.max(np.abs(P * g)))
        rng = self.rng
        ncmp = 0
        coords = [(int(good_rows[int(rng.integers(0, len(good_rows)))]), int(rng.integers(0, K))) for _ in range(self.ncoords)]
        for (i, k) in coords:
            def f(t, i=i, k=k):
                Pt = P.copy()
                li = L[i:i + 1].copy()
                li[0, k] += t
                Pt[i] = gen.softmax(li)[0]
                return F(Pt)
            d = numdiff.derivative(f, L[i, k], f_abs_err=ferr)
            if d is None:
                ctx.count("kink_skipped")
                continue
            R, err, noise = d
            scale = max(abs(R), gscale)
            if numdiff.ill_conditioned(noise, scale):
                ctx.count("illconditioned_skipped")
                continue
            tol = numdiff.tolerance(R, err, noise, scale) + proj_floor
            ctx.count("coords_compared")
            ncmp += 1
            ctx.maxi("max:err_over_tol", abs(R - G[i, k]) / tol)
            if not abs(R - G[i, k]) <= tol and not numdiff.confirmed_mismatch(f, L[i, k], float(G[i, k]), scale, ferr, proj_floor):
                ctx.count("mismatch_not_confirmed_at_finer_scales")
            elif not abs(R - G[i, k]) <= tol:
                ctx.violation("numeric-derivative/logit", "gradient-mismatch/" + mech,
                              observed={"analytic": float(G[i, k]), "coordinate": [i, k], "P": P, "mode": self.mode},
                              expected={"numeric": R, "tol": tol}, detail={"A": A})
                break
        gc = g - g.mean(1, keepdims=True)
        for _ in range(self.ndirs):
            Z = np.zeros(P.shape)
            Z[good_rows] = rng.normal(size=(len(good_rows), K))
            V = P * (Z - (P * Z).sum(1, keepdims=True))
            V /= max(1.0, float(np.max(np.abs(V[good_rows]) / P[good_rows]))) * 2   # |tV| <= t*P/2: P + tV stays positive for |t| < 1
            # remove the round-off of the projection so that the rows of V sum to zero as exactly as doubles allow
            V[np.arange(N), P.argmax(1)] -= V.sum(1)

            def f(t, V=V):
                return F(P + t * V)
            d = numdiff.derivative(f, 1.0, f_abs_err=ferr)
            if d is None:
                ctx.count("kink_skipped")
                continue
            R, err, noise = d
            ana = float((g * V).sum())
            scale = max(abs(R), float(np.abs(gc * V).sum()))
            if numdiff.ill_conditioned(noise, scale):
                ctx.count("illconditioned_skipped")
                continue
            tol = numdiff.tolerance(R, err, noise, scale) + 1e4 * numdiff.EPS * float(np.abs(g * V).sum())
            ctx.count("dirs_compared")
            ncmp += 1
            ctx.maxi("max:err_over_tol", abs(R - ana) / tol)
            if not abs(R - ana) <= tol and not numdiff.confirmed_mismatch(f, 1.0, ana, scale, ferr, 1e4 * numdiff.EPS * float(np.abs(g * V).sum())):
                ctx.count("mismatch_not_confirmed_at_finer_scales")
            elif not abs(R - ana) <= tol:
                ctx.violation("numeric-derivative/direction", "gradient-mismatch/" + mech,
                              observed={"analytic": ana, "P": P, "V": V, "mode": self.mode},
                              expected={"numeric": R, "tol": tol}, detail={"A": A})
                break
        if ncmp:
            ctx.count("cmp:" + cname)
            ctx.count("cmp:" + ("ovo" if gem.ovo else "ova"))
            if float(np.linalg.norm(G)) > 1e-12:
                ctx.distinct(cname, bool(gem.ovo), P.shape, P.tobytes().hex()[:64])
                ctx.sample({"class": cname, "ovo": bool(gem.ovo), "shape": [N, K], "mode": self.mode,
                            "tangent_grad_norm": float(np.linalg.norm(G)), "compared": ncmp})


def setup(ctx):
    return State(ctx)


def reach_targets(reach):
    import gemclus.gemini as gg
    for name in _gem.CONCRETE:
        reach.add_class(getattr(gg, name), {"evaluate"})


SCALES = (0.1, 0.5, 1.0, 2.0, 4.0, 8.0, 30.0)


def run_case(case, ctx, st):
    thorough = case.get("tier") == "thorough"
    st.ncoords, st.ndirs = (10, 4) if thorough else (6, 2)
    if case["kind"] == "direct":
        st.mode = "direct"
        for idx in range(case["i0"], case["i1"]):
            info, gem, P, L, A, X = _gem.direct_case(case["seed"], ID, idx, nmax=14, scales=SCALES, big=True)
            st.rng = gen.rng_for(case["seed"], ID, "mon", idx)
            ctx.case = {"kind": "direct", "seed": case["seed"], "i0": idx, "i1": idx + 1, "tier": case.get("tier"),
                        "info": info}
            gem(P, A, return_grad=True)
            if idx % 3 == 0 and isinstance(info["gemini"], dict):
                # the same object family with a clipping bound a user may well choose (1e-4 .. 0.03): many entries are
                # clipped, the others are not - the derivative of the returned score is still what the gradient must be
                d2 = dict(info["gemini"], epsilon=float(10 ** st.rng.uniform(-4, -1.5)))
                ctx.case = {"kind": "direct", "seed": case["seed"], "i0": idx, "i1": idx + 1, "tier": case.get("tier"),
                            "info": dict(info, gemini=d2, second_call="user-epsilon")}
                ctx.count("user_epsilon_calls")
                gen.gemini_from_desc(d2)(P, A, return_grad=True)
            if idx % 4 == 2 and A is not None and isinstance(A, np.ndarray) and A.flags.writeable:
                # the same object again, on the same affinity array rescaled / refreshed in place, and on a prediction
                # buffer refreshed in place: the gradient returned now is the derivative of the score returned now
                rng3 = gen.rng_for(case["seed"], ID, "refresh", idx)
                A *= float(rng3.choice([0.25, 3.0]))
                if rng3.random() < 0.5:
                    A += np.diag(np.abs(rng3.normal(size=len(A)))) * float(np.max(np.abs(A))) * (0.0 if info["gemini"].get("cls") == "WassersteinGEMINI" else 0.5)
                P[:] = gen.predictions(rng3, P.shape[0], P.shape[1], float(rng3.choice([0.5, 2.0])))[0]
                ctx.case = {"kind": "direct", "seed": case["seed"], "i0": idx, "i1": idx + 1, "tier": case.get("tier"),
                            "info": dict(info, second_call="same-object-arrays-refreshed-in-place")}
                ctx.count("inplace_refreshed_grad_calls")
                gem(P, A, return_grad=True)
            if idx % 7 == 0:
                # exact zeros / one-hot rows: clipped entries must get zero gradient
                Q = np.zeros_like(P)
                Q[np.arange(len(P)), P.argmax(1)] = 1.0
                if len(P) > 1:
                    Q[0] = P[0]
                # in Fortran order every other time: clipped entries get zero gradient whatever the memory layout
                gem.evaluate(np.asfortranarray(Q) if idx % 14 == 0 else Q, A, return_grad=True)
    else:
        rng = gen.rng_for(case["seed"], ID, "fit", case["i"])
        st.rng = gen.rng_for(case["seed"], ID, "monfit", case["i"])
        st.mode = "fit"
        st.fitcall = 0
        names = gen.GRADIENT_ESTIMATORS
        name = names[case["i"] % len(names)]
        n, d = int(rng.integers(5, 13)), int(rng.integers(1, 4))
        nonneg = bool(rng.random() < 0.2)
        X = gen.make_data(rng, n, d, "nonneg" if nonneg else "blobs")
        params, pre = gen.random_config(rng, name, n, d, max_iter=int(rng.integers(2, 9)), nonneg=nonneg)
        params["learning_rate"] = float(10 ** rng.uniform(-2.0, -0.3))   # large steps: saturated late epochs
        y = gen.precomputed_for(rng, pre, n)
        est = gen.build_estimator(name, params)
        ctx.count("fits")
        try:
            est.fit(X, y)
        except Exception as e:
            ctx.count("fit_raised:" + type(e).__name__)   # C04's business
