"""C19 - the printed KAURI tree is a faithful description of the fitted tree (parse stdout, apply, compare with predict)."""
import contextlib
import io

import numpy as np

from . import _kauri

ID = "C19"
NATIVE = True
RULE = ("the C09 fit workload (all depths / feature usages); stdout of print_kauri_tree is parsed by an independent "
        "recursive-descent parser of the printed format into nested threshold rules which are applied to training points, "
        "fresh points and points exactly on thresholds and compared with predict; with default names and with unique "
        "generated names (mapped back to feature indices); too-short name lists, unfitted and foreign objects must raise. "
        "One evaluation = one printed tree. Non-trivial = tree with >=1 split; distinct by printed text.")
ASSUMPTIONS = ["printed thresholds are NumPy's shortest round-tripping repr, so float(text) recovers them exactly",
               "generated feature names cannot contain ' <= ' or ' > '"]
EVAL_COUNTER = "prints"
REQUIRED = {"quick": {"prints": 1000, "trees_with_splits": 400, "points_compared": 20000, "named_prints": 300,
                      "short_names_rejected": 100, "unfitted_refused": 50, "refused_fit_then_print_refused": 80},
            "thorough": {"prints": 20000}}
SHARD_TIMEOUT = {"quick": 1200, "thorough": 7000}


def cases(tier, seed):
    n = 800 if tier == "quick" else 12000
    return [{"kind": "fits", "seed": seed, "i0": i, "i1": min(i + 25, n)} for i in range(0, n, 25)]


def setup(ctx):
    return None


def reach_targets(reach):
    import gemclus.tree.kauri as kk
    reach.add_function(kk.print_kauri_tree)


class ParseError(Exception):
    pass


def parse(text):
    """Returns nested rules: ("leaf", cluster) | ("split", name, threshold, left, right)."""
    lines = [l for l in text.split("\n") if l.strip() != ""]
    pos = [0]

    def split_prefix(line):
        d = 0
        while line.startswith("| "):
            line = line[2:]
            d += 1
        return d, line

    def node(depth):
        if pos[0] >= len(lines):
            raise ParseError("unexpected end")
        d, rest = split_prefix(lines[pos[0]])
        if d != depth or not rest.startswith("Node "):
            raise ParseError(f"expected 'Node' at depth {depth}: {lines[pos[0]]!r}")
        pos[0] += 1
        d, rest = split_prefix(lines[pos[0]])
        if rest.strip().startswith("Cluster:"):
            if d != depth:
                raise ParseError("cluster line at wrong depth")
            pos[0] += 1
            return ("leaf", int(rest.strip()[len("Cluster:"):]))
        if d != depth or not rest.startswith("|="):
            raise ParseError(f"expected rule at depth {depth}: {lines[pos[0]]!r}")
        body = rest[2:]
        if " <= " not in body:
            raise ParseError("left rule must be '<='")
        name, thr = body.rsplit(" <= ", 1)
        pos[0] += 1
        left = node(depth + 1)
        d, rest = split_prefix(lines[pos[0]])
        if d != depth or not rest.startswith("|=") or " > " not in rest:
            raise ParseError(f"expected '>' rule at depth {depth}: {lines[pos[0]]!r}")
        name2, thr2 = rest[2:].rsplit(" > ", 1)
        if name2 != name or thr2 != thr:
            raise ParseError("the two rules of a node disagree")
        pos[0] += 1
        right = node(depth + 1)
        return ("split", name, float(thr), left, right)

    tree = node(0)
    if pos[0] != len(lines):
        raise ParseError("trailing lines")
    return tree


def apply(rule, x, name_to_feature):
    while rule[0] == "split":
        _, name, thr, left, right = rule
        rule = left if x[name_to_feature(name)] <= thr else right
    return rule[1]


def names_used(rule, acc):
    if rule[0] == "split":
        acc.add(rule[1])
        names_used(rule[3], acc)
        names_used(rule[4], acc)
    return acc


def default_name(name):
    if not (name.startswith("X[:, ") and name.endswith("]")):
        raise ParseError("not a default feature name: " + name)
    return int(name[5:-1])


def run_case(case, ctx, st):
    from gemclus.tree import Kauri, print_kauri_tree
    for i in range(case["i0"], case["i1"]):
        rng, X, y, p, info = _kauri.kauri_case(case["seed"], ID, i)
        ctx.case = {"kind": "fits", "seed": case["seed"], "i0": i, "i1": i + 1, "params": p, "info": info}
        n, d = X.shape
        est = Kauri(**p)
        # unfitted / foreign objects are refused
        for obj, tag in ((est, "unfitted"), (object(), "foreign"), (None, "none")):
            try:
                with contextlib.redirect_stdout(io.StringIO()):
                    print_kauri_tree(obj)
                ctx.violation("refusal", f"print-accepts-{tag}", observed="returned", expected="raises")
            except Exception:
                ctx.count("unfitted_refused")
        if i % 3 == 0:
            # a model whose only fit was refused (non-finite / one-dimensional / empty data) is still an unfitted model
            bad_inputs = [("nan", np.where(np.arange(X.size).reshape(X.shape) == 0, np.nan, X)), ("1d", X[:, 0]),
                          ("empty", X[:0]), ("inf", np.where(np.arange(X.size).reshape(X.shape) == X.size - 1, np.inf, X))]
            tagb, Xb = bad_inputs[int(rng.integers(0, len(bad_inputs)))]
            est_b = Kauri(**p)
            refused = False
            try:
                with contextlib.redirect_stdout(io.StringIO()):
                    est_b.fit(Xb, None if p["kernel"] != "precomputed" else y)
            except Exception:
                refused = True
            if refused:
                try:
                    with contextlib.redirect_stdout(io.StringIO()) as buf:
                        print_kauri_tree(est_b)
                    ctx.violation("refusal", "print-accepts-model-whose-fit-was-refused", observed={"input": tagb, "printed": buf.getvalue()[:120]}, expected="raises")
                except Exception:
                    ctx.count("unfitted_refused")
                    ctx.count("refused_fit_then_print_refused")
        try:
            est.fit(X, y)
        except Exception as e:
            ctx.count("fit_raised:" + type(e).__name__)
            continue
        used = sorted({int(f) for f in est.tree_.features if f is not None})
        Q = _kauri.query_points(rng, X, est.tree_)
        pred = np.asarray(est.predict(Q))
        variants = [("default", None)]
        names = [f"f{j:02d}_{''.join(chr(97 + int(c)) for c in rng.integers(0, 26, size=3))}" for j in range(d)]
        variants.append(("named", names))
        if rng.random() < 0.5:
            variants.append(("named-array", np.array(names)))
        for tag, fn in variants:
            buf = io.StringIO()
            try:
                with contextlib.redirect_stdout(buf):
                    print_kauri_tree(est, fn) if fn is not None else print_kauri_tree(est)
            except Exception as e:
                ctx.violation("print-completes", f"print-raises/{tag}/{type(e).__name__}", observed={"exc": repr(e)[:200], "params": p},
                              expected="prints")
                continue
            text = buf.getvalue()
            ctx.count("prints")
            if tag != "default":
                ctx.count("named_prints")
            try:
                rules = parse(text)
            except (ParseError, ValueError, IndexError) as e:
                ctx.violation("printed-format", f"printed-tree-unparseable/{tag}", observed={"text": text[:1500], "error": repr(e)},
                              expected="nested threshold rules")
                continue
            if tag == "default":
                n2f = default_name
            else:
                table = {nm: j for j, nm in enumerate(names)}
                n2f = lambda nm: table[nm]  # noqa: E731
            try:
                got = np.array([apply(rules, x, n2f) for x in Q])
                usedp = sorted({n2f(nm) for nm in names_used(rules, set())})
            except (KeyError, ParseError) as e:
                ctx.violation("printed-names", f"printed-feature-name-unknown/{tag}", observed={"text": text[:1500], "error": repr(e)},
                              expected="names of used features")
                continue
            ctx.count("points_compared", len(Q))
            if usedp != used:
                ctx.violation("printed-names", f"printed-features-differ-from-tree/{tag}", observed={"printed": usedp, "tree": used},
                              expected="equal")
            if not np.array_equal(got, pred):
                k = int(np.argmax(got != pred))
                ctx.violation("printed-rules", f"printed-rules-differ-from-predict/{tag}",
                              observed={"point": Q[k], "rules_say": int(got[k]), "predict_says": int(pred[k]), "text": text[:1500]},
                              expected="equal")
            if est.tree_.n_nodes > 1:
                ctx.count("trees_with_splits")
                ctx.distinct(text)
                ctx.sample({"params": p, "n": n, "printed": text[:400], "points": len(Q)})
        # name lists too short to label every used feature
        if used:
            for m in sorted({0, len(used) - 1, max(used)}):
                if m > max(used) or m < 0:
                    continue
                short = names[:m]
                if len(short) > max(used):
                    continue
                try:
                    with contextlib.redirect_stdout(io.StringIO()):
                        print_kauri_tree(est, short if m else [])
                    if m == 0:
                        # an empty list is documented as "no names" by some readers: accept either behaviour
                        ctx.count("empty_name_list_accepted")
                    else:
                        ctx.violation("short-names", "short-name-list-accepted", observed={"names": short, "used_features": used},
                                      expected="raises")
                except Exception:
                    ctx.count("short_names_rejected")
