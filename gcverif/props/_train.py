"""Training tap shared by C03 / C06 / C10 / C12 / C14 / C17: hooks on fit/path, _batchify and the optimiser step.

All hooks are class-level attribute rebindings installed before any model is created or decorated:
  * DiscriminativeModel.fit (and path of the sparse models): which model is training, on which (X, y)
  * DiscriminativeModel._batchify / CategoricalModel._batchify: every yielded (X_batch, affinity_batch)
  * sklearn BaseOptimizer.update_params: parameters and gradients of every step, before and after it is applied
"""
import numpy as np

from ..attach import Patcher


class Listener:
    """Override what you need."""
    def fit_enter(self, model, X, y, kind): pass
    def fit_exit(self, model, X, y, kind, exc): pass
    def epoch_start(self, model, X, A): pass                      # a _batchify generator was created and started
    def batch(self, model, X, A, Xb, Ab, ids): pass               # one yielded batch (ids: sample ids or None)
    def epoch_end(self, model, X, A, batches): pass               # generator exhausted
    def step_before(self, model, opt, params, grads): pass
    def step_after(self, model, opt, params, grads): pass


class TrainTap:
    def __init__(self, ctx, listener):
        import gemclus
        from gemclus._base_gemini import DiscriminativeModel
        from gemclus.nonparametric._categorical_models import CategoricalModel
        from gemclus.sparse._linear_sparse import SparseLinearModel
        from gemclus.sparse._mlp_sparse import SparseMLPModel
        from sklearn.neural_network import _stochastic_optimizers as so
        self.ctx = ctx
        self.l = listener
        self.patcher = Patcher()
        self.stack = []          # [(model, X_as_batched, kind)]
        self.fail_at_step = None  # fault injection: raise at the k-th optimiser step from now
        g = ctx.guard
        tap = self

        # --- fit / path -------------------------------------------------------------------------------------
        base_fit = vars(DiscriminativeModel)["fit"]

        def fit(self, X, y=None):
            tap.stack.append((self, X, "fit"))
            g(tap.l.fit_enter, "fit_enter")(self, X, y, "fit")
            exc = None
            try:
                return base_fit(self, X, y)
            except BaseException as e:
                exc = e
                raise
            finally:
                tap.stack.pop()
                g(tap.l.fit_exit, "fit_exit")(self, X, y, "fit", exc)
        fit.__wrapped__ = base_fit
        fit.__doc__ = base_fit.__doc__
        self.patcher.setattr(DiscriminativeModel, "fit", fit)

        for cls in (SparseLinearModel, SparseMLPModel):
            orig_path = vars(cls)["path"]

            def make(orig_path=orig_path):
                def path(self, X, y=None, *a, **k):
                    tap.stack.append((self, X, "path"))
                    g(tap.l.fit_enter, "path_enter")(self, X, y, "path")
                    exc = None
                    try:
                        return orig_path(self, X, y, *a, **k)
                    except BaseException as e:
                        exc = e
                        raise
                    finally:
                        tap.stack.pop()
                        g(tap.l.fit_exit, "path_exit")(self, X, y, "path", exc)
                path.__wrapped__ = orig_path
                path.__doc__ = orig_path.__doc__
                return path
            self.patcher.setattr(cls, "path", make())

        # --- _batchify ----------------------------------------------------------------------------------------
        for cls in (DiscriminativeModel, CategoricalModel):
            orig_b = vars(cls)["_batchify"]

            def makeb(orig_b=orig_b):
                def _batchify(self, X, affinity_matrix=None, random_state=None):
                    # decorated (mlcl) models feed arange(n) through this method: map indices back to the rows
                    ids_mode = isinstance(X, np.ndarray) and X.ndim == 1 and np.issubdtype(X.dtype, np.integer)
                    Xfull = tap.current_X() if ids_mode else X
                    g(tap.l.epoch_start, "epoch_start")(self, Xfull, affinity_matrix)
                    seen = []
                    for Xb, Ab in orig_b(self, X, affinity_matrix, random_state):
                        ids = None
                        Xb_real = Xb
                        if ids_mode:
                            ids = np.asarray(Xb).copy()
                            Xb_real = None if Xfull is None else np.asarray(Xfull)[ids]
                        rec = (Xb_real, Ab, ids)
                        seen.append(rec)
                        tap.last_batch = (self, Xfull, affinity_matrix) + rec
                        g(tap.l.batch, "batch")(self, Xfull, affinity_matrix, Xb_real, Ab, ids)
                        yield Xb, Ab
                    g(tap.l.epoch_end, "epoch_end")(self, Xfull, affinity_matrix, seen)
                _batchify.__wrapped__ = orig_b
                return _batchify
            self.patcher.setattr(cls, "_batchify", makeb())
        self.last_batch = None

        # --- optimiser step -------------------------------------------------------------------------------------
        orig_up = vars(so.BaseOptimizer)["update_params"]

        def update_params(self, params, grads):
            model = tap.stack[-1][0] if tap.stack else None
            g(tap.l.step_before, "step_before")(model, self, params, grads)
            if tap.fail_at_step is not None:
                tap.fail_at_step -= 1
                if tap.fail_at_step < 0:
                    tap.fail_at_step = None
                    raise InjectedFault("injected fault at optimiser step")
            res = orig_up(self, params, grads)
            g(tap.l.step_after, "step_after")(model, self, params, grads)
            return res
        update_params.__wrapped__ = orig_up
        self.patcher.setattr(so.BaseOptimizer, "update_params", update_params)

    def current_X(self):
        """The array being batched by the innermost running fit/path (validated the way fit validates it)."""
        if not self.stack:
            return None
        model, X, kind = self.stack[-1]
        try:
            return np.asarray(X, dtype=np.float64)
        except Exception:
            return None

    def close(self):
        self.patcher.restore()


class InjectedFault(RuntimeError):
    pass


class AmbiguousRows(Exception):
    """The full array has duplicated rows: a batch row does not identify its sample."""


def decode_ids(Xfull, Xb):
    """Sample ids of the rows of Xb inside Xfull; None when a row of Xb is not a row of Xfull;
    raises AmbiguousRows when the rows of Xfull are not pairwise distinct."""
    Xfull = np.ascontiguousarray(np.asarray(Xfull, dtype=np.float64))
    table = {}
    for i, r in enumerate(Xfull):
        k = r.tobytes()
        if k in table:
            raise AmbiguousRows()
        table[k] = i
    out = []
    for r in np.ascontiguousarray(np.asarray(Xb, dtype=np.float64)):
        i = table.get(r.tobytes())
        if i is None:
            return None
        out.append(i)
    return np.array(out, dtype=int)
