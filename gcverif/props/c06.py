"""C06 - unselected features are inert; selection reads exact zeros; groups stay whole; shrinkage = prox(alpha*lr)."""
import numpy as np

from .. import gen
from ..attach import Patcher
from ..refs import prox as ref
from . import _train

ID = "C06"
RULE = ("fits and paths of the five sparse estimators: every GEMINI, alpha in {0, small, large}, M in {0,0.1,1,10}, groups in "
        "{None, partial lists, full partitions, unordered}, batch sizes, dynamic on/off, both solvers, small and large "
        "alpha multipliers; per optimiser step: weights after _update_weights == reference proximal operator applied to "
        "the weights right after the optimiser step with threshold alpha * optimiser.learning_rate (other parameters "
        "untouched); at quiescent points (after fit, at every validation score of a path, after restoration): selection == "
        "non-zero rows, hidden rows zero where skip rows are, perturbing unselected columns leaves predict_proba "
        "bit-identical, groups whole, groups_ a completed partition. One evaluation = one monitored step or quiescent "
        "point. Non-trivial = step with alpha>0 or quiescent point with >=1 unselected feature.")
ASSUMPTIONS = ["reference proximal operators of C05 (closed form / bisection)",
               "rows whose skip weights are zero but hidden weights are not (non-unique minimiser) are skipped and counted"]
EVAL_COUNTER = "evaluations"
REQUIRED = {"quick": {"runs_with_twin_features": 20, "preliminary_fits_with_other_groups": 30, "steps_checked": 4000, "steps_with_shrinkage": 2000, "quiescent_points": 400,
                      "quiescent_with_unselected": 100, "inertness_perturbations": 100, "group_wholeness_checks": 80,
                      "steps:linear": 1000, "steps:mlp": 1000, "steps_grouped": 500},
            "thorough": {"steps_checked": 80000, "quiescent_points": 8000}}
SHARD_TIMEOUT = {"quick": 1200, "thorough": 7000}


def cases(tier, seed):
    n = 240 if tier == "quick" else 4000
    return [{"kind": "run", "seed": seed, "i": i} for i in range(n)]


class State(_train.Listener):
    def __init__(self, ctx):
        from gemclus.sparse._linear_sparse import SparseLinearModel
        from gemclus.sparse._mlp_sparse import SparseMLPModel
        import gemclus.sparse._base_sparse as bs
        self.ctx = ctx
        self.tap = _train.TrainTap(ctx, self)
        self.patcher = Patcher()
        self.in_update = None
        self.snap = None
        self.lr = None
        self.rng = np.random.default_rng(0)
        self.user_groups = None
        self.X = None
        for cls, kind in ((SparseLinearModel, "linear"), (SparseMLPModel, "mlp")):
            self.patcher.setattr(cls, "_update_weights", self._wrap(vars(cls)["_update_weights"], kind))
        self.patcher.rebind(bs.compute_val_score, self._wrap_val(bs.compute_val_score))

    def close(self):
        self.patcher.restore()
        self.tap.close()

    def step_after(self, model, opt, params, grads):
        if self.in_update is not None:
            self.snap = [np.array(w, copy=True) for w in params]
            self.lr = float(opt.learning_rate)

    def _wrap(self, orig, kind):
        st = self

        def _update_weights(self, weights, gradients):
            st.in_update, st.snap = self, None
            try:
                res = orig(self, weights, gradients)
            finally:
                st.in_update = None
            st.ctx.guard(st.check_step, "check_step")(self, kind, weights)
            return res
        _update_weights.__wrapped__ = orig
        return _update_weights

    def _wrap_val(self, orig):
        st = self

        def compute_val_score(clf, X, y, batch_size, gemini_objective):
            res = orig(clf, X, y, batch_size, gemini_objective)
            if st.X is not None:
                st.ctx.guard(st.quiescent, "quiescent")(clf, "validation")
            return res
        compute_val_score.__wrapped__ = orig
        return compute_val_score

    # ---- per step ----------------------------------------------------------------------------------------
    def check_step(self, model, kind, weights):
        ctx = self.ctx
        if self.snap is None:
            ctx.violation("shrinkage", "no-optimiser-step-inside-update", observed=type(model).__name__, expected="one update_params call")
            return
        ctx.count("steps_checked")
        ctx.count("evaluations")
        ctx.count("steps:" + kind)
        thr = float(model.alpha) * self.lr
        groups = model.groups_
        if groups is not None:
            ctx.count("steps_grouped")
        if thr > 0:
            ctx.count("steps_with_shrinkage")
        after = [np.asarray(w) for w in weights]
        snap = self.snap
        if not all(np.all(np.isfinite(w)) for w in snap) or not all(np.all(np.isfinite(w)) for w in after):
            ctx.count("nonfinite_state_skipped")      # C17's business: nothing about the shrinkage can be decided on nan
            return
        if kind == "linear":
            W, b = snap[0], snap[1]
            exp = np.empty_like(W)
            units = [[i] for i in range(W.shape[0])] if groups is None else [list(g) for g in groups]
            for g in units:
                z, _ = ref.group_lasso(W[g].ravel(), thr)
                exp[g] = z.reshape(W[g].shape)
            scale = max(1.0, float(np.max(np.abs(W))))
            if not np.all(np.abs(after[0] - exp) <= 1e-12 * scale):
                ctx.violation("shrinkage", "linear-shrinkage-not-prox-alpha-lr",
                              observed={"W_after_step": W, "W_final": after[0], "alpha": model.alpha, "lr": self.lr, "groups": groups},
                              expected={"prox": exp, "threshold": thr})
            # exact zeros where the reference says zero (selection reads exact zeros)
            elif np.any((exp == 0) & (after[0] != 0) & (np.abs(np.linalg.norm(W, axis=1, keepdims=True) - thr) > 1e-9 * scale)) and groups is None:
                ctx.violation("shrinkage", "linear-shrinkage-not-exact-zero",
                              observed={"W_after_step": W, "W_final": after[0], "threshold": thr}, expected="exact zeros")
            if not np.array_equal(after[1], b):
                ctx.violation("shrinkage", "shrinkage-touched-other-parameter/b_", observed={"before": b, "after": after[1]}, expected="unchanged")
            if thr > 0:
                ctx.distinct("lin", W.tobytes().hex()[:48], thr, str(groups))
        else:
            W1, W2, Ws, b1, b2 = snap
            M = float(model.M)
            units = [[i] for i in range(Ws.shape[0])] if groups is None else [list(g) for g in groups]
            expWs, expW1 = np.array(after[2], copy=True), np.array(after[0], copy=True)
            undecided = np.zeros(Ws.shape[0], dtype=bool)
            for g in units:
                v, u = Ws[g].ravel(), W1[g].ravel()
                if float(np.sum(v ** 2)) == 0:
                    if np.all(u == 0) and thr > 0:
                        expWs[g], expW1[g] = 0.0, 0.0
                    else:
                        undecided[g] = True
                        ctx.count("rows_zero_skip_nonunique_skipped")
                    continue
                be, th, _, _ = ref.hier_prox(v, u, thr, M)
                expWs[g] = be.reshape(Ws[g].shape)
                expW1[g] = th.reshape(W1[g].shape)
            scale = max(1.0, float(np.max(np.abs(Ws))), float(np.max(np.abs(W1))))
            ok = np.all(np.abs(after[2] - expWs) <= 1e-8 * scale) and np.all(np.abs(after[0] - expW1) <= 1e-8 * scale * max(1.0, M))
            if not ok:
                ctx.violation("shrinkage", "mlp-shrinkage-not-hierprox-alpha-lr",
                              observed={"W_skip_after_step": Ws, "W1_after_step": W1, "W_skip_final": after[2], "W1_final": after[0],
                                        "alpha": model.alpha, "lr": self.lr, "M": M, "groups": groups},
                              expected={"W_skip": expWs, "W1": expW1, "threshold": thr})
            for nm, a, b in (("W2_", after[1], W2), ("b1_", after[3], b1), ("b2_", after[4], b2)):
                if not np.array_equal(a, b):
                    ctx.violation("shrinkage", "shrinkage-touched-other-parameter/" + nm, observed={"before": b, "after": a}, expected="unchanged")
            if thr > 0:
                ctx.distinct("mlp", Ws.tobytes().hex()[:32], W1.tobytes().hex()[:32], thr, M, str(groups))

    # ---- quiescent points --------------------------------------------------------------------------------
    def quiescent(self, model, where):
        ctx = self.ctx
        X = self.X
        d = X.shape[1]
        ctx.count("quiescent_points")
        ctx.count("quiescent:" + where)
        ctx.count("evaluations")
        if not all(np.all(np.isfinite(w)) for w in model._get_weights()):
            ctx.count("nonfinite_state_skipped")
            return
        is_mlp = hasattr(model, "W_skip_")
        Wsel = model.W_skip_ if is_mlp else model.W_
        nonzero = np.array([bool(np.any(Wsel[i] != 0)) for i in range(d)])
        sel = np.asarray(model.get_selection())
        want = np.where(nonzero)[0]
        if not np.array_equal(np.sort(sel), want):
            ctx.violation("selection", "selection-not-nonzero-rows", observed={"get_selection": sel, "nonzero_rows": want, "where": where},
                          expected="equal")
            return
        if int(model._n_selected_features()) != len(want):
            ctx.violation("selection", "n-selected-features-wrong", observed=int(model._n_selected_features()), expected=len(want))
        if is_mlp:
            dead = ~nonzero
            if np.any(model.W1_[dead] != 0):
                ctx.violation("selection", "hidden-rows-nonzero-for-unselected-feature",
                              observed={"W1_rows": model.W1_[dead], "features": np.where(dead)[0], "where": where}, expected="exact zeros")
        unselected = np.where(~nonzero)[0]
        if len(unselected):
            ctx.count("quiescent_with_unselected")
            P0 = model.predict_proba(X)
            for trial in range(2):
                Xp = X.copy()
                mode = int(self.rng.integers(0, 3))
                if mode == 0:
                    Xp[:, unselected] = self.rng.choice([-1e6, 1e6, 3.5], size=(len(X), len(unselected)))
                elif mode == 1:
                    Xp[:, unselected] = Xp[self.rng.permutation(len(X))][:, unselected]
                else:
                    Xp[:, unselected] = self.rng.normal(scale=50.0, size=(len(X), len(unselected)))
                P1 = model.predict_proba(Xp)
                ctx.count("inertness_perturbations")
                if not np.array_equal(P0, P1):
                    ctx.violation("inertness", "unselected-feature-changes-predictions",
                                  observed={"unselected": unselected, "max_abs_change": float(np.max(np.abs(P0 - P1))), "where": where},
                                  expected="bit-identical predict_proba")
                    break
            ctx.distinct("q", where, tuple(int(x) for x in unselected), Wsel.tobytes().hex()[:48])
        # groups
        groups_ = model.groups_
        ug = self.user_groups
        if ug is not None:
            flat = [i for g in ug for i in g]
            expect = [list(g) for g in ug] + [[i] for i in range(d) if i not in flat]
            if groups_ is None or [list(g) for g in groups_] != expect:
                ctx.violation("groups", "groups-not-completed-partition", observed={"groups_": groups_, "user": ug}, expected=expect)
            else:
                allidx = sorted(i for g in groups_ for i in g)
                if allidx != list(range(d)):
                    ctx.violation("groups", "groups-not-a-partition", observed=groups_, expected="partition of range(d)")
            ctx.count("group_wholeness_checks")
            for g in ug:
                flags = {bool(nonzero[i]) for i in g}
                if len(flags) > 1:
                    ctx.violation("groups", "group-partially-selected", observed={"group": g, "selected": [bool(nonzero[i]) for i in g], "where": where},
                                  expected="all or none")
        elif groups_ is not None:
            ctx.violation("groups", "groups-invented", observed=groups_, expected=None)
        ctx.sample({"estimator": type(model).__name__, "where": where, "selected": want, "d": d, "groups": ug})


def setup(ctx):
    return State(ctx)


def reach_targets(reach):
    for n in ("SparseLinearModel", "SparseMLPModel"):
        reach.add_class(gen.get_class(n), {"_update_weights", "get_selection", "_n_selected_features", "_group_lasso_penalty", "fit", "path"})
    import gemclus.sparse._base_sparse as bs
    reach.add_function(bs.check_groups)
    reach.add_function(bs._path)


def run_case(case, ctx, st):
    i = case["i"]
    rng = gen.rng_for(case["seed"], ID, "run", i)
    st.rng = gen.rng_for(case["seed"], ID, "mon", i)
    name = gen.SPARSE[i % len(gen.SPARSE)]
    n, d = int(rng.integers(10, 40)), int(rng.integers(2, 8))
    X = gen.make_data(rng, n, d, "blobs")
    params, pre = gen.random_config(rng, name, n, d, max_iter=int(rng.integers(3, 12)), allow_precomputed=False)
    params["alpha"] = float([0.0, 1e-3, 0.05, 0.3, 2.0][int(rng.integers(0, 5))])
    params["learning_rate"] = float(10 ** rng.uniform(-2.5, -0.7))
    if "M" in params:
        params["M"] = float([0.0, 0.1, 1.0, 10.0][int(rng.integers(0, 4))])
    g = params.get("gemini")
    if isinstance(g, str) and g.startswith("wasserstein"):
        pass
    twins = d >= 3 and rng.random() < 0.25
    if twins:
        # redundant (nearly duplicated) features, mini-batches and - half of the time - the dynamic mode: discarded features
        # try to come back during later steps of a path
        X = gen.with_twins(rng, X)
        params["batch_size"] = int(max(2, n // int(rng.integers(3, 8))))
        params["groups"] = None
        if "dynamic" in params:
            params["dynamic"] = bool(rng.random() < 0.6)
        ctx.count("runs_with_twin_features")
    est = gen.build_estimator(name, params)
    if rng.random() < 0.3:
        # the same object was used before with ANOTHER group structure (a grid search re-configuring one estimator): what
        # counts afterwards is the structure in force
        import copy as _copy
        other = gen.random_groups(rng, d)
        for _ in range(5):
            if other != params.get("groups"):
                break
            other = gen.random_groups(rng, d)
        est.set_params(groups=_copy.deepcopy(other))
        st.user_groups = other
        st.X = X
        try:
            est.set_params(max_iter=2).fit(X)
            ctx.count("preliminary_fits_with_other_groups")
        except Exception as e:
            ctx.count("run_raised:" + type(e).__name__)
        est.set_params(groups=_copy.deepcopy(params.get("groups")), max_iter=params["max_iter"])
    st.user_groups = params.get("groups")
    st.X = X
    use_path = (i % 2 == 0)
    ctx.case = dict(case, estimator=name, params=params, n=n, d=d, path=use_path)
    try:
        if use_path:
            est.set_params(alpha=max(params["alpha"], 0.02))
            big = rng.random() < 0.5
            est.path(X, alpha_multiplier=float(rng.uniform(1.8, 3.0) if big else rng.uniform(1.15, 1.4)),
                     min_features=int(rng.integers(1, d)), max_patience=int(rng.integers(1, 4)),
                     restore_best_weights=bool(rng.random() < 0.7))
            ctx.count("paths")
            st.ctx.guard(st.quiescent, "quiescent")(est, "after-path")
        else:
            est.fit(X)
            ctx.count("fits")
            st.ctx.guard(st.quiescent, "quiescent")(est, "after-fit")
            # crafted quiescent states on a copy of the fitted model: a row of tiny but non-zero weights is a selected
            # feature, a row of exact zeros is not - whatever training happened to produce
            import copy
            twin = copy.deepcopy(est)
            Wsel = twin.W_skip_ if hasattr(twin, "W_skip_") else twin.W_
            j_tiny, j_zero = int(rng.integers(0, d)), int(rng.integers(0, d))
            Wsel[j_tiny] = rng.normal(size=Wsel.shape[1]) * float(10 ** rng.uniform(-12, -4))
            if twin.groups_ is None or True:
                members = [j_zero] if twin.groups_ is None else [i for g in twin.groups_ if j_zero in g for i in g]
                if j_tiny not in members:
                    Wsel[members] = 0.0
                    if hasattr(twin, "W1_"):
                        twin.W1_[members] = 0.0
            ug = st.user_groups
            ok_groups = ug is None or all(len({bool(np.any(Wsel[i] != 0)) for i in g}) == 1 for g in ug)
            if ok_groups:
                ctx.count("crafted_states")
                st.ctx.guard(st.quiescent, "quiescent")(twin, "crafted")
    except Exception as e:
        ctx.count("run_raised:" + type(e).__name__)
    finally:
        st.X = None
