"""C05 - proximal operators return the exact minimiser of their penalised problem."""
import numpy as np

from .. import gen
from . import _prox

ID = "C05"
RULE = ("direct calls of the four functions of gemclus.sparse._prox_grad: d 1..8 features, h 1..8 hidden units, K 1..4 "
        "outputs, entries at scales 1e-2..1e1, integer rows (ties between |u_j|), zero rows, alpha in {0..50}, M in "
        "{0,0.1,1,10,100}; every set partition of d<=5 features (exhaustive, shuffled, non-contiguous) and random "
        "partitions of d<=8; plus every call made by real sparse fits and paths (rebinding patcher). One evaluation = "
        "one row / flattened group. Non-trivial = compared with the reference minimiser; distinct by input bytes.")
ASSUMPTIONS = ["reference: closed form for the group lasso; bisection on the monotone derivative of the reduced 1-D "
               "strictly convex problem for HIER-PROX",
               "rows with | ||w|| - alpha | <= 4 ulp are excluded from the exact-zero test"]
EVAL_COUNTER = "rows"
REQUIRED = {"quick": {"gl_rows_zeroed": 1500, "gl_rows_shrunk": 1500, "hier_rows_compared": 5000, "hier_rows_killed": 300,
                      "hier_rows_clipped_active": 500, "hier_rows_zero_in_scope": 50, "group_calls_checked": 1000,
                      "insitu_calls": 500, "model_steps_feasibility_checked": 60, "model_steps_alpha_zero": 8, "partitions_exhaustive": 52 + 15 + 5 + 2 + 1},
            "thorough": {"hier_rows_compared": 300000, "gl_rows_shrunk": 100000, "insitu_calls": 10000}}
SHARD_TIMEOUT = {"quick": 900, "thorough": 5400}
REPOTESTS = {"thorough": 16}      # the repository's own test-suite, in 16 parts, under the same monitors


def partitions(items):
    if len(items) == 1:
        yield [items]
        return
    first, rest = items[0], items[1:]
    for smaller in partitions(rest):
        for n, subset in enumerate(smaller):
            yield smaller[:n] + [[first] + subset] + smaller[n + 1:]
        yield [[first]] + smaller


def cases(tier, seed):
    nd, nf = (600, 48) if tier == "quick" else (30000, 640)
    out = [{"kind": "direct", "seed": seed, "i0": i, "i1": min(i + 20, nd)} for i in range(0, nd, 20)]
    out += [{"kind": "partitions", "seed": seed, "d": d} for d in (1, 2, 3, 4, 5)]
    out += [{"kind": "fit", "seed": seed, "i": i} for i in range(nf)]
    return out


class State:
    def __init__(self, ctx):
        self.ctx = ctx
        self.mode = "direct"
        self.rng = np.random.default_rng(1)
        self.tap = _prox.ProxTap(ctx, self.on_call)
        # the step as the models apply it: whatever route _update_weights takes (operator called, or short-cut for a
        # null threshold), the pair it leaves behind is feasible - every hidden weight of a feature / group bounded by
        # M times the norm of its skip weights
        from ..attach import Patcher
        from gemclus.sparse._mlp_sparse import SparseMLPModel
        self.patcher = Patcher()
        orig = vars(SparseMLPModel)["_update_weights"]
        chk = ctx.guard(self.check_feasible, "model-step-feasible")

        def _update_weights(self_, weights, gradients):
            res = orig(self_, weights, gradients)
            chk(self_)
            return res
        _update_weights.__wrapped__ = orig
        self.patcher.setattr(SparseMLPModel, "_update_weights", _update_weights)

    def check_feasible(self, model):
        ctx = self.ctx
        W1, Ws, M = np.asarray(model.W1_, dtype=float), np.asarray(model.W_skip_, dtype=float), float(model.M)
        if not (np.all(np.isfinite(W1)) and np.all(np.isfinite(Ws))):
            ctx.count("model_steps_nonfinite_skipped")
            return
        ctx.count("model_steps_feasibility_checked")
        if float(model.alpha) == 0:
            ctx.count("model_steps_alpha_zero")
        groups = model.groups_
        units = [[j] for j in range(Ws.shape[0])] if groups is None else [list(g) for g in groups]
        for g in units:
            bound = M * float(np.linalg.norm(Ws[g]))
            worst = float(np.max(np.abs(W1[g])))
            if worst > bound * (1 + 1e-9) + 1e-12 * max(1.0, float(np.max(np.abs(W1)))):
                ctx.violation("hier-prox", "model-step-leaves-infeasible-pair",
                              observed={"unit": g, "max_hidden": worst, "M_times_skip_norm": bound, "alpha": float(model.alpha), "M": M},
                              expected="max |W1[unit]| <= M * ||W_skip[unit]||")
                return

    def on_call(self, kind, args, kwargs, res, depth):
        self.ctx.count("calls")
        if self.mode == "fit":
            self.ctx.count("insitu_calls")
        before = self.ctx.counters.get("gl_rows", 0) + self.ctx.counters.get("hier_rows", 0)
        _prox.contract(self.ctx, kind, args, kwargs, res, rng=self.rng if depth == 0 else None, tag=self.mode)
        self.ctx.count("rows", self.ctx.counters.get("gl_rows", 0) + self.ctx.counters.get("hier_rows", 0) - before)

    def close(self):
        self.patcher.restore()
        self.tap.close()


def setup(ctx):
    return State(ctx)


def reach_targets(reach):
    import gemclus.sparse._prox_grad as pg
    for n in ("soft_threshold", "mlp_prox_grad", "group_mlp_prox_grad", "linear_prox_grad", "group_linear_prox_grad"):
        reach.add_function(getattr(pg, n))


def _matrix(rng, d, h):
    kind = int(rng.integers(0, 5))
    scale = 10 ** rng.uniform(-2, 1)
    W = rng.normal(scale=scale, size=(d, h))
    if kind == 1:
        W = np.round(rng.normal(scale=2, size=(d, h)))          # ties, exact zeros
    elif kind == 2:
        W[rng.integers(0, d)] = 0.0                               # a zero row
    elif kind == 3:
        W = np.abs(W) * np.sign(rng.normal(size=(1, h)))          # equal sign patterns
    elif kind == 4:
        W[:, :] = W[:, :1]                                        # all |u_j| tied within a row
    return W


def _alpha(rng):
    return float([0.0, 1e-3, 0.05, 0.3, 1.0, 3.0, 10.0, 50.0][int(rng.integers(0, 8))] * (1 if rng.random() < 0.5 else rng.uniform(0.5, 1.5)))


def _direct(rng, ctx, groups=None, d=None):
    import gemclus.sparse._prox_grad as pg
    d = d or int(rng.integers(1, 9))
    h, K = int(rng.integers(1, 9)), int(rng.integers(1, 5))
    alpha, M = _alpha(rng), float([0.0, 0.1, 1.0, 10.0, 100.0][int(rng.integers(0, 5))])
    W = _matrix(rng, d, K)
    W1 = _matrix(rng, d, h)
    if rng.random() < 0.15:
        z = int(rng.integers(0, d))
        W[z] = 0.0
        W1[z] = 0.0       # the in-scope zero row (needs alpha > 0)
    ctx.case = dict(ctx.case or {}, detail={"d": d, "h": h, "K": K, "alpha": alpha, "M": M, "groups": groups})
    try:
        if groups is None:
            pg.linear_prox_grad(W.copy(), alpha)
            pg.mlp_prox_grad(W.copy(), W1.copy(), alpha if alpha > 0 or np.all(np.linalg.norm(W, axis=1) > 0) else 0.1, M)
        else:
            pg.group_linear_prox_grad(groups, W.copy(), alpha)
            pg.group_mlp_prox_grad(groups, W.copy(), W1.copy(), alpha if alpha > 0 else 0.1, M)
    except Exception as e:
        ctx.violation("prox-call", "prox-raises/" + type(e).__name__, observed={"exc": repr(e), "W": W, "W1": W1},
                      expected="a minimiser")


def _random_partition(rng, d):
    perm = [int(x) for x in rng.permutation(d)]
    groups, i = [], 0
    while i < d:
        s = int(rng.integers(1, min(4, d - i) + 1))
        groups.append(perm[i:i + s])
        i += s
    return groups


def run_case(case, ctx, st):
    if case["kind"] == "direct":
        st.mode = "direct"
        for idx in range(case["i0"], case["i1"]):
            rng = gen.rng_for(case["seed"], ID, "direct", idx)
            st.rng = rng
            ctx.case = {"kind": "direct", "seed": case["seed"], "i0": idx, "i1": idx + 1}
            _direct(rng, ctx)
            d = int(rng.integers(2, 9))
            _direct(rng, ctx, groups=_random_partition(rng, d), d=d)
    elif case["kind"] == "partitions":
        st.mode = "direct"
        d = case["d"]
        rng = gen.rng_for(case["seed"], ID, "part", d)
        st.rng = rng
        for part in partitions(list(range(d))):
            part = [list(g) for g in part]
            for g in part:
                rng.shuffle(g)
            rng.shuffle(part)
            ctx.count("partitions_exhaustive")
            for _ in range(3):
                _direct(rng, ctx, groups=part, d=d)
    else:
        st.mode = "fit"
        rng = gen.rng_for(case["seed"], ID, "fit", case["i"])
        st.rng = rng
        name = gen.SPARSE[case["i"] % len(gen.SPARSE)]
        n, d = int(rng.integers(8, 25)), int(rng.integers(2, 7))
        X = gen.make_data(rng, n, d, "blobs")
        params, pre = gen.random_config(rng, name, n, d, max_iter=int(rng.integers(2, 8)), allow_precomputed=False)
        params["learning_rate"] = float(10 ** rng.uniform(-2.5, -0.5))
        if isinstance(params.get("gemini"), (str, type(None))) and params.get("gemini") in ("wasserstein_ova", "wasserstein_ovo"):
            params["gemini"] = "mmd_ova"
        if name in ("SparseMLPModel", "SparseMLPMMD") and rng.random() < 0.35:
            # no penalty at all, a binding hierarchy constant: the step is then the projection onto the feasible set
            params["alpha"] = 0.0
            params["M"] = float([0.0, 0.1, 1.0][int(rng.integers(0, 3))])
        est = gen.build_estimator(name, params)
        ctx.count("fits")
        try:
            if case["i"] % 3 == 0 and params.get("alpha", 0.1) > 0:
                est.set_params(alpha=max(params.get("alpha", 0.1), 0.05))
                est.path(X, alpha_multiplier=float(rng.uniform(1.5, 3.0)), min_features=int(rng.integers(1, d)),
                         max_patience=2)
                ctx.count("paths")
            else:
                est.fit(X)
        except Exception as e:
            ctx.count("fit_raised:" + type(e).__name__)
