"""C01 - GEMINI scores equal their defining statistical distances.

Monitor: contract on every `evaluate` call (class-level wrapper): returned score == naive reference built from the
documented definition; registry monitor: every name -> object scoring like the documented (distance, mode).
"""
import numpy as np

from .. import gen
from ..refs.gemini import ref_gemini, REGISTRY
from . import _gem

ID = "C01"
RULE = ("direct calls: random GEMINI object (6 classes + MI, both ovo flags, named kernels/metrics with parameters, "
        "callables, precomputed PSD/indefinite/non-metric matrices) x n in 1..16 x K in 2..6 x logit scale 0.1..8; "
        "registry: 13 names x discriminating inputs, directly and through every generic estimator's get_gemini; "
        "in-situ: every evaluate call of short real fits + score(). A case is non-trivial when P is interior "
        "(no clipping, rows sum to 1) and the reference was evaluated and compared; distinct = distinct "
        "(class, ovo, shape, hash of P).")
ASSUMPTIONS = ["scipy.optimize.linprog (HiGHS) solves the transport LP exactly (reference for Wasserstein, n<=16)",
               "IEEE double arithmetic; tolerance 1e-9 relative (1e-7 for the LP, sqrt-aware for MMD)"]
EVAL_COUNTER = "evaluate_calls"
REQUIRED = {"quick": {"calls_beyond_2^20_elements": 12, "compared": 1500, "registry_compared": 26, "insitu_compared": 100,
                      "compared:kl": 50, "compared:tv": 50, "compared:hellinger": 50, "compared:chi2": 50,
                      "compared:mmd": 100, "compared:wasserstein": 100, "named_affinity_compared": 700, "mi_alias_compared": 100, "inplace_refresh_calls": 400, "float32_predictions_compared": 60, "clipped_band_compared": 300, "clipped_band_narrow": 150, "clipped_band_compared:mmd": 60},
            "thorough": {"compared": 20000, "registry_compared": 100, "insitu_compared": 2000}}
SHARD_TIMEOUT = {"quick": 900, "thorough": 5400}
REPOTESTS = {"thorough": 16}      # the repository's own test-suite, in 16 parts, under the same monitors


def cases(tier, seed):
    nd, nr, nf = (4000, 4, 90) if tier == "quick" else (80000, 20, 900)
    out = [{"kind": "direct", "seed": seed, "i0": i, "i1": min(i + 50, nd)} for i in range(0, nd, 50)]
    out += [{"kind": "registry", "seed": seed, "i": i} for i in range(nr)]
    out += [{"kind": "fit", "seed": seed, "i": i} for i in range(nf)]
    return out


class State:
    def __init__(self, ctx):
        self.ctx = ctx
        self.mode = "direct"
        self.tap = _gem.GeminiTap(self.on_eval, ctx)

    def on_eval(self, gem, P, A, return_grad, res, orig):
        ctx = self.ctx
        ctx.count("evaluate_calls")
        if P.ndim == 2 and P.shape[0] * P.shape[1] ** 2 > 2 ** 20:
            ctx.count("calls_beyond_2^20_elements")
        value = res[0] if return_grad else res
        dist = _gem.class_distance(gem)
        if dist is None:
            ctx.count("skipped_unknown_class")
            return
        if any(c.__name__ == "MI" for c in type(gem).__mro__):
            # "the name 'mi' denotes KL one-vs-all": the same number as KLGEMINI(ovo=False) with the same clipping bound,
            # at every point - clipped entries included, where the two can only differ by how they treat the clipping
            import gemclus.gemini as gg
            twin = gg.KLGEMINI(ovo=False, epsilon=gem.epsilon)
            v_mi = float(np.asarray(value).reshape(-1)[0]) if np.size(value) == 1 else float("nan")
            v_kl = float(np.asarray(orig(twin, P.copy(), A, False)).reshape(-1)[0])
            ctx.count("mi_alias_compared")
            if not _gem.interior(P, gem.epsilon):
                ctx.count("mi_alias_compared_on_clipped_input")
            if not (abs(v_mi - v_kl) <= 1e-10 * max(1.0, abs(v_kl)) or (v_mi != v_mi and v_kl != v_kl)):
                ctx.violation("mi-is-kl-ova", "mi-differs-from-kl-ova", observed={"mi": v_mi, "P": P, "epsilon": gem.epsilon},
                              expected={"kl_ova": v_kl})
        if not _gem.interior(P, gem.epsilon):
            ctx.count("skipped_not_interior")
            self.clipped_band(gem, P, A, value, dist)
            return
        N, K = P.shape
        if dist == "wasserstein" and N > 16:
            ctx.count("skipped_wasserstein_large")
            return
        if dist in ("mmd", "wasserstein"):
            if A is None:
                ctx.count("skipped_no_affinity")
                return
            A = np.asarray(A, dtype=float)
            if A.shape != (N, N) or not np.all(np.isfinite(A)) or not np.allclose(A, A.T, rtol=1e-12, atol=1e-12):
                ctx.count("skipped_affinity_not_symmetric")
                return
        try:
            ref = ref_gemini(dist, bool(gem.ovo), P, A)
        except RuntimeError:
            ctx.count("skipped_lp_failed")
            return
        value = float(np.asarray(value).reshape(-1)[0]) if np.size(value) == 1 else float("nan")
        tol = 1e-9 * max(1.0, abs(ref))
        if dist == "wasserstein":
            # relative to the cost matrix' own magnitude (LP solver accuracy 1e-7)
            tol = 1e-7 * max(abs(ref), float(np.max(np.abs(A))))
        if dist == "mmd":
            # relative to the kernel's own magnitude: the score scales like sqrt(max|A|)
            tol = 1e-9 * max(abs(ref), float(np.sqrt(np.max(np.abs(A))))) + _gem.mmd_tolerance(gem, P, A)
        ctx.count("compared")
        ctx.count("compared:" + dist)
        ctx.count("compared:" + ("ovo" if gem.ovo else "ova"))
        if self.mode == "fit":
            ctx.count("insitu_compared")
        err = abs(value - ref)
        ctx.maxi("max:err_over_tol", err / tol if tol > 0 else 0.0)
        ctx.distinct(type(gem).__name__, bool(gem.ovo), P.shape, P.tobytes().hex()[:64], round(ref, 12))
        if abs(ref) > 1e-9:
            ctx.count("compared_nonzero_ref")
        ctx.sample({"class": type(gem).__name__, "ovo": bool(gem.ovo), "shape": list(P.shape), "score": value,
                    "reference": ref, "mode": self.mode})
        if not (err <= tol):
            ctx.violation("evaluate-vs-reference", f"score-mismatch/{dist}-{'ovo' if gem.ovo else 'ova'}",
                          observed={"score": value, "P": P, "class": type(gem).__name__},
                          expected={"reference": ref, "tol": tol},
                          detail={"mode": self.mode, "A": A})

    def clipped_band(self, gem, P, A, value, dist):
        """Predictions with entries at or beyond the clipping bound (saturated / one-hot rows, a user epsilon).  What the
        clipping convention does to such a matrix is the library's choice, so the score is held to lie within the band
        spanned by the reasonable readings of "the GEMINI of these predictions": the reference of the clipped matrix, of
        the clipped matrix with rows renormalised, and (where finite) of the matrix as given - widened by the width of
        that band itself.  All three differ by the natural O(K*epsilon) perturbation; a score outside the band is not the
        documented distance between the cluster conditionals and the data distribution under any reading."""
        ctx = self.ctx
        eps = float(gem.epsilon)
        if not (P.ndim == 2 and P.size and np.all(np.isfinite(P)) and np.all(P >= 0) and np.all(np.abs(P.sum(1) - 1.0) <= 1e-9)):
            return
        N, K = P.shape
        if eps > 0.05 or N * K > 400 or (dist == "wasserstein" and N > 10) or np.size(value) != 1:
            return
        if dist in ("mmd", "wasserstein"):
            if A is None:
                return
            A = np.asarray(A, dtype=float)
            if A.shape != (N, N) or not np.all(np.isfinite(A)) or not np.allclose(A, A.T, rtol=1e-12, atol=1e-12):
                return
        Pc = np.clip(P, eps, 1 - eps)
        refs = []
        for Q in (Pc, Pc / Pc.sum(1, keepdims=True), P):
            try:
                r = float(ref_gemini(dist, bool(gem.ovo), Q, A))
            except Exception:
                continue
            if np.isfinite(r):
                refs.append(r)
        if len(refs) < 2:
            return
        value = float(np.asarray(value).reshape(-1)[0])
        lo, hi = min(refs), max(refs)
        scale = max(1.0, abs(lo), abs(hi))
        slack = 1e-9 * scale + (hi - lo)
        if dist == "wasserstein":
            slack += 1e-7 * max(scale, float(np.max(np.abs(A))))
        if dist == "mmd":
            slack += 1e-9 * float(np.sqrt(np.max(np.abs(A)))) + _gem.mmd_tolerance(gem, Pc, A)
        if dist in ("hellinger", "chi2"):
            # their closed forms (1 - sum sqrt(.), (sum ./. + 1) / 2) take the rows of the clipped matrix as they are, summing
            # to 1 + O(K * epsilon): a fourth reading, O(K * epsilon) away from the other three even when those coincide
            # (a single sample: every reading gives exactly 0, the closed form -(K - 1) * epsilon)
            slack += 4 * K * eps * scale
        ctx.count("clipped_band_compared")
        ctx.count("clipped_band_compared:" + dist)
        if (hi - lo) <= 0.05 * max(abs(hi), 1e-300):
            ctx.count("clipped_band_narrow")           # the three readings agree to 5 %: a decisive comparison
        ctx.distinct("clipped", type(gem).__name__, bool(gem.ovo), P.shape, P.tobytes().hex()[:64], eps)
        if not (lo - slack <= value <= hi + slack):
            ctx.violation("evaluate-vs-reference", f"score-outside-band-on-clipped-predictions/{dist}-{'ovo' if gem.ovo else 'ova'}",
                          observed={"score": value, "epsilon": eps, "P": P, "class": type(gem).__name__},
                          expected={"references(clipped, clipped+renormalised, as given)": refs, "slack": slack},
                          detail={"A": A, "mode": self.mode})

    def close(self):
        self.tap.close()


def setup(ctx):
    return State(ctx)


def reach_targets(reach):
    import gemclus.gemini as gg
    for name in _gem.CONCRETE:
        reach.add_class(getattr(gg, name), {"evaluate", "compute_affinity"})
    from gemclus.gemini._utils import _str_to_gemini
    reach.add_function(_str_to_gemini)


def _registry_case(case, ctx, st):
    from gemclus.gemini._utils import _str_to_gemini
    from sklearn.metrics import pairwise_kernels, pairwise_distances
    rng = gen.rng_for(case["seed"], ID, "registry", case["i"])
    # discriminating input: the 12 candidate references must differ pairwise by > 1e-6
    for attempt in range(20):
        n, K, d = int(rng.integers(5, 11)), int(rng.integers(2, 5)), int(rng.integers(1, 4))
        X = gen.make_data(rng, n, d, "blobs")
        P, _ = gen.predictions(rng, n, K, 1.5)
        lin = pairwise_kernels(X, metric="linear")
        euc = pairwise_distances(X, metric="euclidean")
        refs = {}
        for dist in ("kl", "tv", "hellinger", "chi2", "mmd", "wasserstein"):
            for ovo in (False, True):
                A = lin if dist == "mmd" else (euc if dist == "wasserstein" else None)
                refs[(dist, ovo)] = ref_gemini(dist, ovo, P, A)
        vals = sorted(refs.values())
        if min(b - a for a, b in zip(vals, vals[1:])) > 1e-6:
            break
    else:
        ctx.count("registry_no_discriminating_input")
        return
    ctx.count("registry_inputs")
    sources = [("_str_to_gemini", lambda name: _str_to_gemini(name))]
    for est in gen.GENERIC:
        sources.append((est + ".get_gemini", (lambda name, est=est: gen.get_class(est)(gemini=name).get_gemini())))
    st.mode = "registry"
    for src, getter in sources:
        names = list(gen.GEMINI_NAMES) + ([None] if src != "_str_to_gemini" else [])
        for name in names:
            dist, ovo = REGISTRY[name if name is not None else "mmd_ova"]
            try:
                obj = getter(name)
                aff = obj.compute_affinity(X)
                want_aff = lin if dist == "mmd" else (euc if dist == "wasserstein" else None)
                if (aff is None) != (want_aff is None) or (aff is not None and not np.allclose(aff, want_aff, rtol=1e-12, atol=1e-12)):
                    ctx.violation("registry", f"registry-affinity/{name}", observed={"source": src, "affinity": aff},
                                  expected={"affinity": want_aff})
                    continue
                val = float(obj(P, aff))
                val2 = float(obj.evaluate(P, aff))
            except Exception as e:  # the registry must serve every documented name
                ctx.violation("registry", f"registry-raises/{name}", observed={"source": src, "exc": repr(e)},
                              expected="a GEMINI object")
                continue
            ref = refs[(dist, ovo)]
            tol = 1e-7 * max(1.0, abs(ref))
            ctx.count("registry_compared")
            ctx.distinct("registry", src, name, case["i"])
            if not (abs(val - ref) <= tol and abs(val2 - ref) <= tol):
                ctx.violation("registry", f"registry-mismatch/{name}",
                              observed={"source": src, "score": val, "class": type(obj).__name__,
                                        "ovo": getattr(obj, "ovo", None)},
                              expected={"documented": [dist, ovo], "reference": ref})
    # unknown names are refused
    try:
        _str_to_gemini("not_a_gemini")
        ctx.violation("registry", "registry-accepts-unknown", observed="returned", expected="ValueError")
    except ValueError:
        ctx.count("registry_unknown_refused")


def _fit_case(case, ctx, st):
    rng = gen.rng_for(case["seed"], ID, "fit", case["i"])
    names = gen.GRADIENT_ESTIMATORS
    name = names[case["i"] % len(names)]
    n, d = int(rng.integers(6, 15)), int(rng.integers(1, 4))
    nonneg = bool(rng.random() < 0.2)
    X = gen.make_data(rng, n, d, "nonneg" if nonneg else "blobs")
    params, pre = gen.random_config(rng, name, n, d, max_iter=int(rng.integers(2, 7)), nonneg=nonneg)
    params["learning_rate"] = float(10 ** rng.uniform(-2.5, -0.7))
    y = gen.precomputed_for(rng, pre, n)
    est = gen.build_estimator(name, params)
    st.mode = "fit"
    ctx.count("fits")
    try:
        est.fit(X, y)
        s = est.score(X, y)
        ctx.count("scores")
        if pre is None and name not in gen.NONPARAMETRIC:
            X2 = gen.make_data(rng, int(rng.integers(2, 15)), d, "nonneg" if nonneg else "blobs")
            est.score(X2)
            ctx.count("scores")
        if not np.isfinite(s):
            ctx.count("score_not_finite")
    except Exception as e:
        # whether a fit may raise is C04's business; here the fit is only a source of evaluate calls
        ctx.count("fit_or_score_raised")
        ctx.count("fit_or_score_raised:" + type(e).__name__)


def run_case(case, ctx, st):
    if case["kind"] == "direct":
        st.mode = "direct"
        for idx in range(case["i0"], case["i1"]):
            info, gem, P, L, A, X = _gem.direct_case(case["seed"], ID, idx, big=True, big_n=48, big_wass=16)
            ctx.case = {"kind": "direct", "seed": case["seed"], "i0": idx, "i1": idx + 1, "info": info}
            ctx.count("direct_calls")
            desc = info["gemini"]
            if isinstance(desc, dict) and isinstance(desc.get("kernel", desc.get("metric")), str) \
                    and desc.get("kernel", desc.get("metric")) != "precomputed":
                # "kernel MMD", "Wasserstein-1" for the kernel / metric the object names: the affinity the object derives
                # from data is scikit-learn's, with the given parameters (zero-valued ones included)
                from sklearn.metrics import pairwise_kernels, pairwise_distances
                kw = desc.get("params") or {}
                want = pairwise_kernels(X, metric=desc["kernel"], **kw) if desc["cls"] == "MMDGEMINI" else pairwise_distances(X, metric=desc["metric"], **kw)
                got = np.asarray(gem.compute_affinity(X), dtype=float)
                ctx.count("named_affinity_compared")
                if got.shape != want.shape or not np.allclose(got, want, rtol=1e-12, atol=1e-12 * float(np.max(np.abs(want)) or 1.0), equal_nan=True):
                    ctx.violation("named-affinity", f"affinity-not-the-named-{'kernel' if desc['cls'] == 'MMDGEMINI' else 'metric'}",
                                  observed={"desc": desc, "max_abs_diff": float(np.nanmax(np.abs(got - want))) if got.shape == want.shape else None},
                                  expected="scikit-learn's pairwise kernel / distance with the given parameters")
            v_first = gem(P, A)
            if idx % 3 == 0:
                gem.evaluate(P, A, return_grad=True)
            if idx % 4 == 2 and desc is not None and (isinstance(desc, str) or desc.get("cls") in ("KLGEMINI", "MI", "TVGEMINI", "HellingerGEMINI", "ChiSquareGEMINI")):
                # predictions stored in single precision (what a float32 network hands over): the f-divergence GEMINIs of
                # these very numbers, to single-precision accuracy - whatever the clipping bound does below float32's
                # resolution of 1 (entries between epsilon and 1.2e-7 are legal probabilities)
                P32 = P.astype(np.float32)
                P64 = P32.astype(np.float64)
                dist32 = _gem.class_distance(gem)
                if dist32 in ("kl", "tv", "hellinger", "chi2") and bool(np.all(P64 > gem.epsilon)) and bool(np.all(P64 < 1 - max(gem.epsilon, 1e-6))) \
                        and bool(np.all(np.abs(P64.sum(1) - 1.0) <= 1e-5)) and P.shape[0] * P.shape[1] <= 4000:
                    st.tap.enabled = False
                    try:
                        v32 = float(np.asarray(gem(P32, A)).reshape(-1)[0])
                    finally:
                        st.tap.enabled = True
                    P64n = P64 / P64.sum(1, keepdims=True)
                    ref32 = ref_gemini(dist32, bool(gem.ovo), P64n, None)
                    ctx.count("float32_predictions_compared")
                    if not abs(v32 - ref32) <= 2e-3 * max(1.0, abs(ref32)):
                        ctx.violation("evaluate-vs-reference", f"score-mismatch-on-float32-predictions/{dist32}-{'ovo' if gem.ovo else 'ova'}",
                                      observed={"score": v32, "min_entry": float(P64.min()), "P": P64}, expected={"reference": ref32, "rtol": 2e-3})
            if idx % 3 == 1 and isinstance(desc, dict) and P.shape[0] * P.shape[1] <= 400:
                # saturated and one-hot predictions under a user clipping bound (1e-4 .. 0.03): rows of the clipped matrix
                # no longer sum to one, so every shortcut that silently assumes they do shows here (see State.clipped_band)
                rng3 = gen.rng_for(case["seed"], ID, "saturated", idx)
                gem3 = gen.gemini_from_desc(dict(desc, epsilon=float(10 ** rng3.uniform(-4, -1.5))))
                n3, K3 = P.shape
                if rng3.random() < 0.5:
                    P3 = np.zeros((n3, K3))
                    P3[np.arange(n3), rng3.integers(0, K3, size=n3)] = 1.0
                else:
                    P3, _ = gen.predictions(rng3, n3, K3, float(rng3.choice([10.0, 20.0, 30.0])))
                ctx.count("saturated_user_epsilon_calls")
                gem3(P3, A)
            if idx % 4 == 1:
                # the same GEMINI object and the same array objects, refreshed in place (a preallocated prediction buffer,
                # an in-place finite difference): what __call__ returns is the score of what the arrays hold NOW
                rng2 = gen.rng_for(case["seed"], ID, "refresh", idx)
                P_new, _ = gen.predictions(rng2, P.shape[0], P.shape[1], float(rng2.choice([0.5, 2.0, 6.0])))
                P[:] = P_new
                if A is not None and isinstance(A, np.ndarray) and A.flags.writeable and rng2.random() < 0.5:
                    A *= 0.5
                v_again = gem(P, A)
                st.tap.enabled = False
                try:
                    v_fresh = gem.evaluate(np.array(P, copy=True), None if A is None else np.array(A, copy=True))
                finally:
                    st.tap.enabled = True
                ctx.count("inplace_refresh_calls")
                va, vf = float(np.asarray(v_again).reshape(-1)[0]), float(np.asarray(v_fresh).reshape(-1)[0])
                if not (abs(va - vf) <= 1e-12 * max(1.0, abs(vf)) or (va != va and vf != vf)):
                    ctx.violation("call-is-stateless", "call-returns-score-of-earlier-content",
                                  observed={"returned": va, "first_call": float(np.asarray(v_first).reshape(-1)[0]), "desc": desc},
                                  expected={"score_of_current_content": vf})
    elif case["kind"] == "registry":
        _registry_case(case, ctx, st)
    elif case["kind"] == "fit":
        _fit_case(case, ctx, st)
