"""C15 - Douglas: masked features inert, valid soft bins, cells at low temperature, active points as defined."""
import itertools

import numpy as np

from .. import gen
from ..attach import Patcher

ID = "C15"
RULE = ("Douglas fits: d 1..4, n_cuts 1..4, feature masks with >=1 used feature, temperatures 1e-3..1e3, every GEMINI name, "
        "unsorted cut points (random normal draws); monitors: every _leaf_binning return (finite, >=0, rows sum to 1), "
        "leaf count, bit-identical predict_proba after perturbing masked columns, constant predictions inside grid cells "
        "after lowering the temperature of the fitted object to 1e-4 (points >= 0.05 away from every cut), and "
        "find_active_points against its definition on 20 query sets per fit (ranges between two cuts, beside all cuts, "
        "straddling one cut, single rows). One evaluation = one fit. Non-trivial: fit with n_cuts >= 2 or a mask; distinct "
        "by (parameters, cut points).")
ASSUMPTIONS = ["a sample's cell along a feature = number of cut points below its value (property text)",
               "masks with no used feature are not generated"]
EVAL_COUNTER = "fits"
REQUIRED = {"quick": {"fits": 250, "memberships_read_through_public_api": 3000, "masked_fits": 60, "mask_perturbations": 120,
                      "cells_compared": 1500, "active_point_queries": 4000, "active_queries_between_cuts": 300,
                      "fits_multi_cut": 120, "cells_matched_to_leaves": 700, "integer_query_points": 3000, "fits_on_few_valued_columns": 25},
            "thorough": {"fits": 5000, "active_point_queries": 90000}}
SHARD_TIMEOUT = {"quick": 1200, "thorough": 7000}


def cases(tier, seed):
    n = 320 if tier == "quick" else 5600
    return [{"kind": "fit", "seed": seed, "i": i} for i in range(n)]


class State:
    def __init__(self, ctx):
        from gemclus.tree import Douglas
        self.ctx = ctx
        self.patcher = Patcher()
        orig = vars(Douglas).get("_leaf_binning")
        if orig is None:
            # the private helper this extra monitor taps does not exist in this tree: the memberships are then observed
            # through the public attributes only (memberships_by_effect below), which decides the same clause
            ctx.count("binning_hook_absent")
            return
        chk = ctx.guard(self.check_binning, "leaf_binning")

        def _leaf_binning(self_, X, cut_points, *args, **kwargs):
            res = orig(self_, X, cut_points, *args, **kwargs)
            chk(self_, X, cut_points, res)
            return res
        _leaf_binning.__wrapped__ = orig
        self.patcher.setattr(Douglas, "_leaf_binning", _leaf_binning)

    def check_binning(self, model, X, cuts, res):
        ctx = self.ctx
        try:
            B = np.asarray(res[0], dtype=float)
            if B.ndim != 2 or B.shape[0] != len(X):
                raise ValueError
        except Exception:
            # the private helper hands back something else than (memberships, ...) in this tree: not this tap's business,
            # the memberships are read through the public API anyway (memberships_by_effect)
            ctx.count("binning_tap_return_shape_unknown")
            return
        ctx.count("binning_calls_checked")
        if not np.all(np.isfinite(X)) or not np.all(np.isfinite(cuts)):
            ctx.count("binning_nonfinite_input_skipped")      # nan cut points come from nan updates: C17's business
            return
        ok = B.shape == (len(X), len(cuts) + 1) and np.all(np.isfinite(B)) and np.all(B >= 0) and np.all(np.abs(B.sum(1) - 1) <= 1e-9)
        if not ok:
            ctx.violation("soft-bins", "bin-memberships-not-a-probability-vector",
                          observed={"shape": list(B.shape), "finite": bool(np.all(np.isfinite(B))), "temperature": model.temperature,
                                    "row_sums": B.sum(1)[:5], "cuts": cuts}, expected="finite, >= 0, rows sum to 1")

    def close(self):
        self.patcher.restore()


def setup(ctx):
    return State(ctx)


def reach_targets(reach):
    from gemclus.tree import Douglas
    reach.add_class(Douglas, {"_leaf_binning", "_merge_leaf", "_infer", "_init_params", "find_active_points"})


def active_ref(cut_list, Q):
    out = []
    for (f, cuts) in cut_list:
        lo, hi = float(np.min(Q[:, f])), float(np.max(Q[:, f]))
        if any(lo < float(c) < hi for c in cuts):
            out.append(int(f))
    return out


def memberships_by_effect(ctx, est, rng, d, K, L):
    """The leaf memberships of a sample, read through the public API: predictions are soft-max(memberships @ leaf_scores_),
    so with leaf_scores_ set to the indicator of leaf j in the first column (zeros elsewhere) the first probability is
    e^m_j / (e^m_j + K - 1), i.e. m_j = log(p_0 (K - 1) / (1 - p_0)).  For every temperature the vector (m_j)_j must be a
    probability vector.  Needs K >= 2 and is run for models with at most 36 leaves."""
    if K < 2 or L > 36 or L < 1:
        return
    saved_scores, saved_t = est.leaf_scores_, est.temperature
    Q = rng.normal(scale=2.0, size=(6, d))
    try:
        for T in (1e-3, 0.05, 1.0, 30.0, 1e3):
            est.temperature = T
            M = np.zeros((len(Q), L))
            for j in range(L):
                S = np.zeros((L, K))
                S[j, 0] = 1.0
                est.leaf_scores_ = S
                p0 = np.asarray(est.predict_proba(Q))[:, 0]
                M[:, j] = np.log(p0 * (K - 1) / (1 - p0))
            ctx.count("memberships_read_through_public_api", len(Q))
            ok = np.all(np.isfinite(M)) and np.all(M >= -1e-9) and np.all(np.abs(M.sum(1) - 1) <= 1e-8)
            if not ok:
                ctx.violation("soft-bins", "leaf-memberships-not-a-probability-vector",
                              observed={"temperature": T, "row_sums": M.sum(1), "min": float(np.nanmin(M)) if M.size else None, "leaves": L},
                              expected="finite, >= 0, rows sum to 1")
                break
    finally:
        est.leaf_scores_, est.temperature = saved_scores, saved_t


def run_case(case, ctx, st):
    from gemclus.tree import Douglas
    i = case["i"]
    rng = gen.rng_for(case["seed"], ID, "fit", i)
    n, d = int(rng.integers(4, 30)), int(rng.integers(1, 5))
    n_cuts = int(rng.integers(1, 5))
    if (n_cuts + 1) ** d > 700:
        n_cuts = 2
    scale = float([1.0, 1.0, 0.2, 3.0][int(rng.integers(0, 4))])
    X = gen.make_data(rng, n, d, "blobs") * scale / 3.0
    if rng.random() < 0.2:
        # binary / ordinal / constant columns: fewer distinct training values than cut points on a used feature - the model
        # still has n_cuts cut points per used feature and (n_cuts+1)^(#used) leaves
        for f in range(d):
            if rng.random() < 0.6:
                levels = int(rng.integers(1, 4))
                X[:, f] = rng.integers(0, levels, size=n).astype(float) * float(rng.choice([1.0, 0.5, 2.0]))
        ctx.count("fits_on_few_valued_columns")
    K = int(rng.integers(2, min(4, n) + 1))
    p = {"n_clusters": K, "n_cuts": n_cuts, "temperature": float(10 ** rng.uniform(-3, 3)),
         "max_iter": int(rng.integers(1, 8)), "learning_rate": float(10 ** rng.uniform(-3, -1)),
         "gemini": gen.GEMINI_NAMES[int(rng.integers(0, 13))], "random_state": gen.subseed(rng) % 100000,
         "solver": ["adam", "sgd"][int(rng.integers(0, 2))],
         "batch_size": [None, int(rng.integers(1, n + 1))][int(rng.integers(0, 2))]}
    mask = None
    if d >= 2 and rng.random() < 0.45:
        mask = [bool(x) for x in (rng.random(d) < 0.5)]
        if not any(mask):
            mask[int(rng.integers(0, d))] = True
        if all(mask):
            mask[int(rng.integers(0, d))] = False
        p["feature_mask"] = mask
    ctx.case = dict(case, params=p, n=n, d=d)
    ctx.count("fits")
    est = gen.build_estimator("Douglas", p)
    try:
        est.fit(X)
    except Exception as e:
        # whether fit completes is C04 / C17's business; C15 speaks about the fitted model
        ctx.count("fit_raised:" + type(e).__name__)
        return
    used = [f for f in range(d) if mask is None or mask[f]]
    if n_cuts >= 2:
        ctx.count("fits_multi_cut")
    # leaf count
    want_leaves = (n_cuts + 1) ** len(used)
    if est.leaf_scores_.shape != (want_leaves, K):
        ctx.violation("leaf-count", "wrong-number-of-leaves", observed=list(est.leaf_scores_.shape), expected=[want_leaves, K])
    if [int(f) for f, _ in est.cut_points_list_] != used or any(len(c) != n_cuts for _, c in est.cut_points_list_):
        ctx.violation("cut-points", "cut-points-not-on-used-features", observed=[(int(f), len(c)) for f, c in est.cut_points_list_],
                      expected={"features": used, "n_cuts": n_cuts})
        return
    if not all(np.all(np.isfinite(c)) for _, c in est.cut_points_list_) or not np.all(np.isfinite(est.leaf_scores_)):
        ctx.count("nonfinite_model_skipped")      # C17's business
        return
    # masked features are inert
    P0 = est.predict_proba(X)
    if mask is not None:
        ctx.count("masked_fits")
        off = [f for f in range(d) if not mask[f]]
        for _ in range(2):
            Xp = X.copy()
            Xp[:, off] = rng.choice([-1e6, 1e6, 0.0, 7.0], size=(n, len(off))) if rng.random() < 0.5 else rng.normal(scale=100, size=(n, len(off)))
            ctx.count("mask_perturbations")
            if not np.array_equal(est.predict_proba(Xp), P0):
                ctx.violation("mask", "masked-feature-changes-predictions", observed={"mask": mask, "max_change": float(np.max(np.abs(est.predict_proba(Xp) - P0)))},
                              expected="bit-identical")
                break
    memberships_by_effect(ctx, est, rng, d, K, want_leaves)
    # low temperature: predictions constant inside grid cells
    cuts = {int(f): np.sort(np.asarray(c, dtype=float)) for f, c in est.cut_points_list_}
    delta = 0.05
    pts = []
    for _ in range(60):
        x = rng.normal(scale=2.0, size=d)
        for f in used:
            c = cuts[f]
            # choose a cell along f then a position inside it at least delta away from the cuts
            j = int(rng.integers(0, len(c) + 1))
            lo = c[j - 1] + delta if j > 0 else c[0] - 3.0
            hi = c[j] - delta if j < len(c) else c[-1] + 3.0
            if hi <= lo:
                x[f] = np.nan
            else:
                x[f] = rng.uniform(lo, hi)
        if np.all(np.isfinite(x)):
            pts.append(x)
    if pts:
        Qc = np.array(pts)
        cells = [tuple(int(np.sum(cuts[f] < x[f])) for f in used) for x in Qc]
        old_t = est.temperature
        est.temperature = 1e-4
        try:
            Pc = est.predict_proba(Qc)
        finally:
            est.temperature = old_t
        by_cell = {}
        for cidx, row in zip(cells, Pc):
            by_cell.setdefault(cidx, []).append(row)
        for cidx, rows in by_cell.items():
            rows = np.array(rows)
            ctx.count("cells_compared", len(rows))
            if not np.all(np.isfinite(rows)) or float(np.max(np.abs(rows - rows[0]))) > 1e-6:
                ctx.violation("cells", "predictions-not-constant-inside-cell", observed={"cell": cidx, "rows": rows[:4], "cuts": {k: v for k, v in cuts.items()}},
                              expected="equal rows")
                break
        # different cells are told apart through the leaf scores: at (nearly) zero temperature every cell shows the
        # soft-max of ONE row of leaf_scores_, and two cells never show the same row (one leaf per cell of the grid) -
        # whatever the convention that numbers the leaves
        if len(by_cell) >= 2 and want_leaves >= 2 and np.all(np.isfinite(Pc)):
            ctx.count("multi_cell_fits")
            S = gen.softmax(np.asarray(est.leaf_scores_, dtype=float))
            sep = min((float(np.max(np.abs(S[a] - S[b]))) for a in range(len(S)) for b in range(a + 1, len(S))), default=1.0) if len(S) <= 64 else 0.0
            seen = {}
            for cidx, rows in by_cell.items():
                row = np.asarray(rows[0])
                dists = np.max(np.abs(S - row), axis=1)
                leaf = int(np.argmin(dists))
                ctx.count("cells_matched_to_leaves")
                if dists[leaf] > 1e-6:
                    ctx.violation("cells", "cell-prediction-is-no-leaf-score", observed={"cell": cidx, "row": row, "closest_leaf": leaf, "distance": float(dists[leaf])},
                                  expected="soft-max of one row of leaf_scores_")
                    break
                if sep > 1e-4 and leaf in seen:
                    ctx.violation("cells", "two-cells-share-one-leaf", observed={"cells": [seen[leaf], cidx], "leaf": leaf, "cuts": {k: v for k, v in cuts.items()}},
                                  expected="one leaf per cell")
                    break
                seen[leaf] = cidx
    # the same cells visited by integer-typed query arrays (counts, pixel values, ordinal codes handed over as int64 / int32):
    # a sample's cell is given by how many cut points lie below its value, whatever the dtype the value arrives in
    if pts:
        ipts = []
        for _ in range(40):
            x = rng.integers(-6, 7, size=d)
            if all(np.min(np.abs(cuts[f] - x[f])) >= delta for f in used):
                ipts.append(x)
        if ipts:
            Qi = np.array(ipts, dtype=[np.int64, np.int32][int(rng.integers(0, 2))])
            icells = [tuple(int(np.sum(cuts[f] < x[f])) for f in used) for x in Qi]
            est.temperature = 1e-4
            try:
                Pi = np.asarray(est.predict_proba(Qi))
                Pif = np.asarray(est.predict_proba(Qi.astype(np.float64)))
            except Exception as e:
                Pi = Pif = None
                ctx.violation("cells", f"predict_proba-raises-on-integer-data/{type(e).__name__}", observed=repr(e)[:200], expected="probabilities")
            finally:
                est.temperature = old_t
            if Pi is not None:
                ctx.count("integer_query_points", len(Qi))
                first = {}
                for cidx, row, rowf in zip(icells, Pi, Pif):
                    ref_row = first.setdefault(cidx, by_cell[cidx][0] if cidx in by_cell else row)
                    if not np.all(np.isfinite(row)) or float(np.max(np.abs(row - ref_row))) > 1e-6 or float(np.max(np.abs(row - rowf))) > 1e-9:
                        ctx.violation("cells", "integer-typed-points-not-constant-inside-cell",
                                      observed={"cell": cidx, "row": row, "row_of_same_values_as_float": rowf, "row_of_the_cell": ref_row, "dtype": str(Qi.dtype)},
                                      expected="the cell's prediction")
                        break
    # find_active_points
    for q in range(20):
        m = int(rng.integers(1, 12))
        Q = rng.normal(scale=2.0, size=(m, d))
        for f in used:
            c = cuts[f]
            mode = int(rng.integers(0, 5))
            if mode == 0 and len(c) >= 2:          # strictly between two consecutive cuts
                j = int(rng.integers(0, len(c) - 1))
                Q[:, f] = rng.uniform(c[j], c[j + 1], size=m) if c[j + 1] > c[j] else c[j]
                ctx.count("active_queries_between_cuts")
            elif mode == 1:                         # beside all cuts
                Q[:, f] = c[-1] + rng.uniform(0.1, 3.0, size=m) if rng.random() < 0.5 else c[0] - rng.uniform(0.1, 3.0, size=m)
            elif mode == 2:                         # straddling exactly one cut
                j = int(rng.integers(0, len(c)))
                Q[:, f] = c[j] + rng.uniform(-0.01, 0.01, size=m)
            elif mode == 3:                         # touching a cut with its maximum only
                Q[:, f] = c[0] - rng.uniform(0, 1, size=m)
                Q[int(rng.integers(0, m)), f] = c[0]
        want = active_ref(est.cut_points_list_, Q)
        ctx.count("active_point_queries")
        try:
            got = [int(x) for x in est.find_active_points(Q)]
        except Exception as e:
            ctx.violation("active-points", f"find_active_points-raises/{type(e).__name__}", observed=repr(e)[:200], expected=want)
            break
        if got != want:
            extra = sorted(set(got) - set(want))
            missing = sorted(set(want) - set(got))
            mech = "active-points-reports-feature-without-cut-in-range" if extra else "active-points-misses-feature"
            f0 = (extra or missing)[0]
            ctx.violation("active-points", mech,
                          observed={"returned": got, "feature": f0, "cuts": cuts[f0], "range": [float(Q[:, f0].min()), float(Q[:, f0].max())]},
                          expected=want)
            break
    if n_cuts >= 2 or mask is not None:
        ctx.distinct(str(p), tuple(float(x) for _, c in est.cut_points_list_ for x in c))
        ctx.sample({"params": p, "n": n, "d": d, "cuts": {k: v for k, v in cuts.items()}})


def finalize(counters, violations, inconclusive):
    # the tap on the private helper is an extra; when the helper exists it must have been reached
    if not counters.get("binning_hook_absent") and not counters.get("binning_tap_return_shape_unknown") \
            and counters.get("binning_calls_checked", 0) < 5000 and counters.get("fits", 0) >= 250:
        inconclusive.append("monitor counter binning_calls_checked=%s < required 5000" % counters.get("binning_calls_checked", 0))
