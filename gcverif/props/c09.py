"""C09 - KAURI trees respect their structural limits and reproduce their own partition (post-fit contract)."""
import numpy as np

from ..refs import kauri as ref
from . import _kauri

ID = "C09"
NATIVE = True
SANITIZE = True
SAN_TIER = "san"
RULE = ("random Kauri fits: n 1..40, d 1..5, constant features, heavy ties, duplicated rows, all combinations of small "
        "limits (max_depth 1..4/None, max_leaves 2..6/None, min_samples_split 2..17, min_samples_leaf 1..6 with 2*leaf<="
        "split, max_features 1..d/None, max_clusters 1..8), all named kernels + precomputed PSD / indefinite, seeds. The "
        "contract re-derives every clause from labels_, leaves_ and the tree_ arrays with its own router and objective. "
        "30% of the fits are the second fit of one object on one array after a fit under another kernel and set_params; the kernel of the score reference is computed by the monitor; 30% of the scores are repeated after the array was changed in place. "
        "One evaluation = one fit. Non-trivial = the tree has >= 1 split; distinct by tree arrays + labels hash.")
ASSUMPTIONS = ["native module rebuilt from _utils.cpp; thorough tier repeats a share of the fits on the ASan+UBSan build"]
EVAL_COUNTER = "fits"
REQUIRED = {"quick": {"fits": 1200, "fits_with_splits": 600, "limit_binding:max_leaves": 50, "limit_binding:max_depth": 50,
                      "limit_binding:max_clusters": 50, "small_n_vs_split": 30, "threshold_queries": 2000,
                      "score_checked": 1000, "trees_over_32_leaves": 10, "trees_over_64_leaves": 2, "refit_histories": 150, "score_after_inplace_change": 120},
            "thorough": {"fits": 30000, "san:fits": 1000}}
SHARD_TIMEOUT = {"quick": 1200, "thorough": 7000}


def cases(tier, seed):
    if tier == "san":
        return [{"kind": "fits", "seed": seed, "i0": i, "i1": i + 25, "off": 10 ** 6} for i in range(0, 2000, 25)]
    n = 1600 if tier == "quick" else 40000
    return [{"kind": "fits", "seed": seed, "i0": i, "i1": min(i + 25, n), "off": 0} for i in range(0, n, 25)]


def setup(ctx):
    return None


def reach_targets(reach):
    from gemclus.tree.kauri import Kauri, Tree
    reach.add_class(Kauri, {"fit", "predict", "score", "_compute_kernel"})
    reach.add_class(Tree, {"_add_child", "predict", "get_depth"})


def check_tree(ctx, est, X, y, p, rng):
    n, d = X.shape
    t = est.tree_
    labels = np.asarray(est.labels_)
    leaves = np.asarray(est.leaves_)
    bad = []

    def need(cond, what, obs=None):
        if not cond:
            bad.append((what, obs))
    nn = t.n_nodes
    arrays = {"children_left": t.children_left, "children_right": t.children_right, "features": t.features,
              "thresholds": t.thresholds, "target": t.target, "depths": t.depths, "gains": t.gains}
    for k, a in arrays.items():
        need(len(a) == nn, "array-length/" + k, [len(a), nn])
    if bad:
        return bad
    leaf_nodes = [i for i in range(nn) if t.children_left[i] == -1]
    internal = [i for i in range(nn) if t.children_left[i] != -1]
    need(nn == 2 * len(leaf_nodes) - 1, "n_nodes-not-2L-1", [nn, len(leaf_nodes)])
    need(all((t.children_left[i] == -1) == (t.children_right[i] == -1) for i in range(nn)), "half-leaf")
    max_leaves = p.get("max_leaves")
    if max_leaves is not None:
        need(len(leaf_nodes) <= max_leaves, "too-many-leaves", [len(leaf_nodes), max_leaves])
        if len(leaf_nodes) == max_leaves:
            ctx.count("limit_binding:max_leaves")
    # depth recomputed from the structure
    depth = {0: 0}
    for i in internal:
        pass
    stack = [0]
    reach_idx = {0: np.arange(n)}
    while stack:
        i = stack.pop()
        if t.children_left[i] == -1:
            continue
        l, r = t.children_left[i], t.children_right[i]
        depth[l] = depth[r] = depth[i] + 1
        idx = reach_idx[i]
        f, thr = t.features[i], t.thresholds[i]
        need(f is not None and 0 <= f < d, "feature-out-of-range", f)
        if f is None or not (0 <= f < d):
            return bad
        go_left = X[idx, f] <= thr
        reach_idx[l], reach_idx[r] = idx[go_left], idx[~go_left]
        need(len(idx) >= p.get("min_samples_split", 2), "split-below-min_samples_split",
             {"node": i, "samples": len(idx), "min_samples_split": p.get("min_samples_split", 2)})
        need(bool(np.any(X[idx, f] == thr)), "threshold-not-observed-value", {"node": i, "feature": f, "threshold": thr})
        need(len(reach_idx[l]) >= 1 and len(reach_idx[r]) >= 1, "empty-child", {"node": i})
        stack += [l, r]
    need(all(depth.get(i) == t.depths[i] for i in range(nn)), "depths-array-wrong", {"depths": t.depths})
    md = p.get("max_depth")
    maxd = max(depth.values())
    if md is not None:
        need(maxd <= md, "too-deep", [maxd, md])
        if maxd == md:
            ctx.count("limit_binding:max_depth")
    for i in leaf_nodes:
        need(len(reach_idx.get(i, [])) >= p.get("min_samples_leaf", 1), "leaf-below-min_samples_leaf",
             {"node": i, "samples": len(reach_idx.get(i, [])), "min_samples_leaf": p.get("min_samples_leaf", 1)})
    # clusters
    m = len(np.unique(labels))
    need(labels.shape == (n,), "labels-shape", list(labels.shape))
    need(sorted(set(int(x) for x in labels)) == list(range(m)), "labels-not-contiguous", sorted(set(int(x) for x in labels)))
    need(m <= p["max_clusters"], "too-many-clusters", [m, p["max_clusters"]])
    if m == p["max_clusters"]:
        ctx.count("limit_binding:max_clusters")
    # each leaf: one cluster, equal to its target; leaves_ consistent with the routing
    for i in leaf_nodes:
        idx = reach_idx.get(i, np.array([], dtype=int))
        if len(idx):
            need(len(set(int(x) for x in labels[idx])) == 1, "leaf-with-two-clusters", {"node": i})
            need(int(labels[idx[0]]) == int(t.target[i]), "leaf-target-differs-from-labels", {"node": i})
            need(len(set(int(x) for x in leaves[idx])) == 1, "leaves_-inconsistent-with-routing", {"node": i})
    need(len(set(int(x) for x in leaves)) == len(leaf_nodes) or n == 0, "leaves_-count", [len(set(leaves.tolist())), len(leaf_nodes)])
    # routing
    routed = np.array([ref.route(t, x)[0] for x in X])
    need(np.array_equal(routed, labels), "router-differs-from-labels", {"routed": routed, "labels_": labels})
    pred = np.asarray(est.predict(X))
    need(np.array_equal(pred, labels), "predict-differs-from-labels", {"predict": pred, "labels_": labels})
    Q = _kauri.query_points(rng, X, t)
    if p["kernel"] in ("chi2", "additive_chi2"):
        Q = np.abs(Q)      # these kernels are only defined for non-negative data
    pq = np.asarray(est.predict(Q))
    rq = np.array([ref.route(t, x)[0] for x in Q])
    ctx.count("threshold_queries", len(Q))
    need(np.array_equal(pq, rq), "predict-differs-from-leaf-region", {"n_diff": int(np.sum(pq != rq))})
    # score = objective of predicted labels
    # the configured kernel, computed here and not by the estimator (which may hold on to an older matrix)
    if p["kernel"] == "precomputed":
        kernel = np.asarray(y, dtype=float)
    else:
        from sklearn.metrics import pairwise_kernels as _pk
        kernel = _pk(np.array(X, copy=True), metric=p["kernel"])
    sc = float(est.score(X, y))
    want = ref.objective(pred, np.asarray(kernel, dtype=float)) if n <= 25 else ref.objective_fast(pred, np.asarray(kernel, dtype=float))
    ctx.count("score_checked")
    need(abs(sc - want) <= 1e-9 * max(1.0, n * float(np.max(np.abs(kernel)))), "score-not-objective", [sc, want])
    if p["kernel"] != "precomputed":
        from sklearn.metrics import pairwise_kernels
        Kq = pairwise_kernels(Q, metric=p["kernel"])
        sq = float(est.score(Q))
        wq = ref.objective_fast(pq, Kq)
        need(abs(sq - wq) <= 1e-9 * max(1.0, len(Q) * float(np.max(np.abs(Kq)))), "score-fresh-not-objective", [sq, wq])
        if rng.random() < 0.3 and X.flags.writeable and p["kernel"] not in ("chi2", "additive_chi2"):
            # the same array object, other contents: score speaks about the data it is given now
            ctx.count("score_after_inplace_change")
            X *= -0.5
            X += rng.normal(size=X.shape) * (float(np.max(np.abs(X))) or 1.0) * 0.3
            p2 = np.asarray(est.predict(X))
            K2 = pairwise_kernels(np.array(X, copy=True), metric=p["kernel"])
            s2 = float(est.score(X))
            w2 = ref.objective_fast(p2, K2)
            need(abs(s2 - w2) <= 1e-9 * max(1.0, n * float(np.max(np.abs(K2)))), "score-stale-after-inplace-change", [s2, w2])
    return bad


def run_case(case, ctx, st):
    from gemclus.tree import Kauri
    for i in range(case["i0"], case["i1"]):
        rng, X, y, p, info = _kauri.kauri_case(case["seed"], ID, i + case.get("off", 0))
        ctx.case = {"kind": "fits", "seed": case["seed"], "i0": i, "i1": i + 1, "off": case.get("off", 0), "params": p, "info": info}
        ctx.count("fits")
        n = len(X)
        if n < p["min_samples_split"]:
            ctx.count("small_n_vs_split")
        est = Kauri(**p)
        try:
            if p["kernel"] != "precomputed" and rng.random() < 0.3:
                # a history on one object and one array: fit under another configuration first, then reconfigure
                ks = [k for k in _kauri.gen.KERNELS if k not in ("chi2", "additive_chi2", p["kernel"])]
                first = dict(p, kernel=ks[int(rng.integers(0, len(ks)))], max_clusters=int(rng.integers(1, 9)))
                ctx.count("refit_histories")
                est = Kauri(**first)
                est.fit(X)
                est.score(X)
                est.set_params(**p)
            est.fit(X, y)
        except Exception as e:
            ctx.violation("fit-completes", f"kauri-fit-raises/{type(e).__name__}", observed={"exc": repr(e)[:300], "params": p, "n": n},
                          expected="fit returns")
            continue
        try:
            bad = check_tree(ctx, est, X, y, p, rng)
        except Exception as e:
            ctx.violation("post-fit-api", f"kauri-api-raises/{type(e).__name__}", observed={"exc": repr(e)[:300], "params": p, "n": n},
                          expected="coherent tree")
            continue
        if est.tree_.n_nodes > 2 * 32:
            ctx.count("trees_over_32_leaves")
        if est.tree_.n_nodes > 2 * 64:
            ctx.count("trees_over_64_leaves")
        if est.tree_.n_nodes > 1:
            ctx.count("fits_with_splits")
            ctx.distinct(tuple(est.tree_.children_left), tuple(est.tree_.features), tuple(est.tree_.thresholds),
                         tuple(int(x) for x in est.labels_))
            ctx.sample({"params": p, "n": n, "d": X.shape[1], "n_nodes": est.tree_.n_nodes, "depth": max(est.tree_.depths),
                        "clusters": int(len(np.unique(est.labels_)))})
        for what, obs in bad[:3]:
            ctx.violation("tree-contract", what.split("/")[0], observed={"detail": obs, "params": p, "n": n}, expected=what)
