"""C13 - GEMINI scores obey their invariances and bounds (metamorphic monitor on evaluate calls)."""
import math

import numpy as np

from .. import gen, numdiff
from . import _gem

ID = "C13"
RULE = ("every sampled evaluate call (direct workload: all classes/kernels/metrics, n 1..14, K 2..6, logit scales "
        "0.1..30, plus one-hot / zero-entry / identical-row / balanced-hard predictions; in-situ: calls made by real "
        "fits) is re-invoked on transformed copies: sample permutation, cluster permutation, appended empty cluster; "
        "bounds checked on the value itself. Non-trivial = at least one metamorphic relation compared on a call with "
        "n>=2; distinct by (class, ovo, shape, hash of P).")
ASSUMPTIONS = ["gradient equivariance is compared on the simplex-tangent part and only where the numeric-derivative "
               "smoothness test accepts the worst coordinate (optimal-transport duals are not unique at kinks)"]
EVAL_COUNTER = "calls_monitored"
REQUIRED = {"quick": {"calls_beyond_2^20_elements": 8, "calls_monitored": 1500, "rel:sample_perm": 1000, "rel:cluster_perm": 1000,
                      "rel:empty_cluster": 1000, "rel:grad_perm": 500, "bound:nonneg": 1500, "bound:constant_rows": 100,
                      "bound:mi_logK": 20, "bound:le_one": 200, "closed_simplex_calls": 150, "onehot_dtype_compared": 300},
            "thorough": {"calls_monitored": 30000, "rel:grad_perm": 10000}}
SHARD_TIMEOUT = {"quick": 900, "thorough": 5400}
REPOTESTS = {"thorough": 16}      # the repository's own test-suite, in 16 parts, under the same monitors


def cases(tier, seed):
    nd, nf = (2400, 32) if tier == "quick" else (48000, 480)
    out = [{"kind": "direct", "seed": seed, "i0": i, "i1": min(i + 25, nd)} for i in range(0, nd, 25)]
    out += [{"kind": "fit", "seed": seed, "i": i} for i in range(nf)]
    return out


def _val(x):
    return float(np.asarray(x).reshape(-1)[0])


class State:
    def __init__(self, ctx):
        self.ctx = ctx
        self.mode = "direct"
        self.rng = np.random.default_rng(0)
        self.k = 0
        self.tap = _gem.GeminiTap(self.on_eval, ctx)

    def close(self):
        self.tap.close()

    def tol(self, gem, P, A, ref, cname):
        t = 1e-9 * max(1.0, abs(ref))
        if cname == "MMDGEMINI":
            A_ = np.asarray(A, dtype=float)
            t = 1e-9 * max(abs(ref), float(np.sqrt(np.max(np.abs(A_))))) + 2 * _gem.mmd_tolerance(gem, np.clip(P, gem.epsilon, 1 - gem.epsilon), A_)
        if cname == "WassersteinGEMINI":
            t = 1e-9 * max(abs(ref), float(np.max(np.abs(A))))
        return t

    def grad_equal(self, gem, P, A, g1, g2, orig, what, mech):
        """tangent parts of two gradients agree, unless the worst coordinate sits on a kink"""
        ctx = self.ctx
        t1 = g1 - g1.mean(1, keepdims=True)
        t2 = g2 - g2.mean(1, keepdims=True)
        scale = max(float(np.max(np.abs(t1))), float(np.max(np.abs(t2))), 1e-300)
        diff = np.abs(t1 - t2)
        if float(diff.max()) <= 1e-7 * scale + 1e-12 * max(1.0, float(np.max(np.abs(g1)))):
            return True
        if not _gem.interior(P, gem.epsilon):
            ctx.count("grad_perm_mismatch_on_clipped_input_skipped")
            return True
        # numeric derivative of the score as arbiter, on the worst coordinates: a mismatch is a violation only where
        # the derivative is decidable (smooth, well conditioned) and one of the two gradients deviates from it
        L = np.log(P)
        G1 = P * (g1 - (P * g1).sum(1, keepdims=True))
        G2 = P * (g2 - (P * g2).sum(1, keepdims=True))
        gs = max(float(np.max(np.abs(G1))), float(np.max(np.abs(G2))), 1e-300)
        ferr = _gem.score_abs_err(gem, P, A)
        order = np.argsort(-np.abs(G1 - G2).ravel())[:4]
        for flat in order:
            i, k = np.unravel_index(int(flat), P.shape)
            if abs(G1[i, k] - G2[i, k]) <= 1e-7 * gs:
                break

            def f(t, i=i, k=k):
                Lt = L.copy()
                Lt[i, k] += t
                return _val(orig(gem, gen.softmax(Lt), A, False))
            d = numdiff.derivative(f, L[i, k], f_abs_err=ferr, strict=True)
            if d is None or numdiff.ill_conditioned(d[2], max(abs(d[0]), gs)):
                ctx.count("grad_perm_kink_skipped")
                continue
            R, err, noise = d
            tol = numdiff.tolerance(R, err, noise, max(abs(R), gs)) + 1e4 * numdiff.EPS * float(np.max(np.abs(P * g1)))
            ctx.count("grad_perm_arbitrated")
            if abs(G1[i, k] - R) > tol or abs(G2[i, k] - R) > tol:
                ctx.violation(what, mech, observed={"P": P, "coordinate": [int(i), int(k)],
                                                    "logit_grad_original": float(G1[i, k]),
                                                    "logit_grad_transformed_back": float(G2[i, k])},
                              expected={"numeric": R, "tol": tol}, detail={"A": A})
                return False
        return True

    def on_eval(self, gem, P, A, return_grad, res, orig):
        ctx = self.ctx
        self.k += 1
        if self.mode == "fit" and self.k % 3:
            return
        ctx.count("calls_monitored")
        if P.ndim == 2 and P.shape[0] * P.shape[1] ** 2 > 2 ** 20:
            ctx.count("calls_beyond_2^20_elements")
        cname = [c.__name__ for c in type(gem).__mro__ if c.__name__ in _gem.CONCRETE][0]
        dist = _gem.class_distance(gem)
        mode = "ovo" if gem.ovo else "ova"
        mech = f"{dist}-{mode}"
        N, K = P.shape
        rng = self.rng
        value = _val(res[0] if return_grad else res)
        closed = not _gem.interior(P, gem.epsilon)
        if closed:
            ctx.count("closed_simplex_calls")
        v0, g0_obj = orig(gem, P.copy(), A, True)
        v0, g0 = _val(v0), np.array(g0_obj, dtype=float, copy=True)
        # finiteness on the closed simplex
        ctx.count("bound:finite")
        if not (math.isfinite(value) and math.isfinite(v0) and np.all(np.isfinite(g0))):
            ctx.violation("finite", "nonfinite/" + mech, observed={"score": value, "P": P, "grad_finite": bool(np.all(np.isfinite(g0)))},
                          expected="finite score and gradient", detail={"A": A})
            return
        tol = self.tol(gem, P, A, v0, cname)
        # Clipping at epsilon replaces exact zeros / ones by epsilon / 1-epsilon: rows then sum to 1 + O(K*epsilon), an
        # "empty" cluster keeps a mass of epsilon, one-hot rows are only nearly one-hot.  The identities below that are
        # stated for exact zeros hold up to that disturbance: invisible at the default 1e-12 (covered by the 1e-9
        # tolerances), but a user epsilon of 1e-3 moves the scores by about K*epsilon*log(1/epsilon) [times n for the
        # unbounded chi-square distance].  Permutation relations are exact whatever epsilon is.
        eps_ = float(gem.epsilon)
        unit_ = 1.0 if A is None else (float(np.sqrt(np.max(np.abs(A)))) if cname == "MMDGEMINI" else float(np.max(np.abs(A))))
        # (the chi-square distance between nearly disjoint clipped distributions is of order 1/epsilon itself: relative)
        eps_lin = 4 * (K + 1) * eps_ * (max(unit_, 1e-300) + (abs(v0) if dist == "chi2" else 0.0))
        eps_slack = 4 * eps_lin * (1 + math.log(1 / eps_) + math.log(max(N, 1)))
        # sample-independent predictions stay sample-independent after clipping: every cluster-conditional is then the
        # uniform distribution and KL, TV, MMD and Wasserstein vanish exactly; squared Hellinger and chi-square are written
        # for rows that sum to one and move by the row-sum excess (K*epsilon, no logarithm)
        const_slack = eps_lin if dist in ("hellinger", "chi2") else 0.0
        if eps_ > 1e-11:
            ctx.count("calls_with_user_epsilon")
        # bounds
        ctx.count("bound:nonneg")
        # clipping one-hot rows at epsilon leaves rows summing to 1 + (K-2)*epsilon: allow a few K*epsilon
        unit = 1.0 if A is None else (float(np.sqrt(np.max(np.abs(A)))) if cname == "MMDGEMINI" else float(np.max(np.abs(A))))
        sqrt_term = 2 * _gem.mmd_tolerance(gem, np.clip(P, gem.epsilon, 1 - gem.epsilon), np.asarray(A, dtype=float)) if cname == "MMDGEMINI" else 0.0
        if value < -(1e-12 + 4 * K * gem.epsilon) * max(unit, 1e-300) - sqrt_term:
            ctx.violation("nonneg", "negative-score/" + mech, observed={"score": value, "P": P}, expected=">= 0",
                          detail={"A": A})
        if dist in ("tv", "hellinger"):
            ctx.count("bound:le_one")
            if value > 1 + 1e-12 + 4 * K * eps_:
                ctx.violation("le-one", "score-above-one/" + mech, observed={"score": value, "P": P}, expected="<= 1")
        zero_diag = dist != "wasserstein" or A is None or bool(np.all(np.diag(np.asarray(A)) == 0))
        if not zero_diag:
            ctx.count("constant_rows_skipped_cost_with_nonzero_diagonal")   # W(p, p) > 0 for such a cost: not a distance
        if N >= 1 and np.all(np.abs(P - P[0]) == 0) and zero_diag:
            ctx.count("bound:constant_rows")
            want = 0.5 if dist == "chi2" else 0.0
            if abs(value - want) > tol + (const_slack if closed else 0.0):
                ctx.violation("constant-rows", "constant-predictions-nonzero/" + mech,
                              observed={"score": value, "P": P}, expected=want, detail={"A": A, "tol": tol})
        if dist == "kl" and not gem.ovo and N % K == 0 and np.all((P == 0) | (P == 1)) and np.all(P.sum(1) == 1) \
                and np.all(P.sum(0) == N // K):
            ctx.count("bound:mi_logK")
            if abs(value - math.log(K)) > 1e-9 + eps_slack:
                ctx.violation("mi-logK", "mi-balanced-partition/" + mech, observed={"score": value, "P": P},
                              expected=math.log(K))
        compared = 0
        # sample permutation
        if N >= 2:
            perm = rng.permutation(N)
            Pp = P[perm]
            Ap = None if A is None else np.asarray(A)[perm][:, perm]
            v1, g1 = orig(gem, Pp.copy(), Ap, True)
            v1, g1 = _val(v1), np.asarray(g1)
            ctx.count("rel:sample_perm")
            compared += 1
            if not abs(v1 - v0) <= tol:
                ctx.violation("sample-permutation", "sample-perm-score/" + mech,
                              observed={"score": v0, "permuted_score": v1, "perm": perm, "P": P}, expected="equal",
                              detail={"A": A, "tol": tol})
            else:
                back = np.empty_like(g1)
                back[perm] = g1
                ctx.count("rel:grad_perm")
                self.grad_equal(gem, P, A, g0, back, orig, "sample-permutation-gradient", "sample-perm-grad/" + mech)
        # cluster permutation
        cp = rng.permutation(K)
        if K >= 2 and not np.all(cp == np.arange(K)):
            v2, g2 = orig(gem, (P[:, cp] if rng.random() < 0.5 else P[:, cp].copy()), A, True)   # Fortran / C order
            v2, g2 = _val(v2), np.asarray(g2)
            ctx.count("rel:cluster_perm")
            compared += 1
            if not abs(v2 - v0) <= tol:
                ctx.violation("cluster-permutation", "cluster-perm-score/" + mech,
                              observed={"score": v0, "permuted_score": v2, "perm": cp, "P": P}, expected="equal",
                              detail={"A": A, "tol": tol})
            else:
                back = np.empty_like(g2)
                back[:, cp] = g2
                ctx.count("rel:grad_perm")
                self.grad_equal(gem, P, A, g0, back, orig, "cluster-permutation-gradient", "cluster-perm-grad/" + mech)
        # empty cluster, inserted at a random position (first, middle or last column)
        pos_e = int(rng.integers(0, K + 1))
        Pe = np.insert(P, pos_e, 0.0, axis=1)
        # predictions reach evaluate in whatever memory layout the caller has: C order, Fortran order (what P[:, perm] or
        # a transposed product gives), or a strided view of a wider array
        layout = int(rng.integers(0, 3))
        if layout == 1:
            Pe_in = np.asfortranarray(Pe)
        elif layout == 2:
            wide = np.zeros((N, 2 * (K + 1)))
            wide[:, ::2] = Pe
            Pe_in = wide[:, ::2]
        else:
            Pe_in = Pe.copy()
        ctx.count("rel:empty_cluster_layout_%s" % ("C", "F", "strided")[layout])
        v3, g3 = orig(gem, Pe_in, A, True)
        v3, g3 = _val(v3), np.asarray(g3)
        ctx.count("rel:empty_cluster")
        if pos_e < K:
            ctx.count("rel:empty_cluster_not_last")
        compared += 1
        if not (abs(v3 - v0) <= tol + 1e-9 * (1.0 if A is None else 0.0) + eps_slack):
            ctx.violation("empty-cluster", "empty-cluster-score/" + mech,
                          observed={"score": v0, "with_empty_cluster": v3, "position": pos_e, "P": P}, expected="equal",
                          detail={"A": A, "tol": tol})
        if g3.shape != Pe.shape or np.any(g3[:, pos_e] != 0):
            ctx.violation("empty-cluster-gradient", "empty-cluster-grad/" + mech,
                          observed={"grad_of_empty_column": g3[:, pos_e] if g3.ndim == 2 and g3.shape[1] > pos_e else None,
                                    "position": pos_e, "P": P}, expected="zeros")
        # every cluster that is already empty in the observed call has zero gradient too, wherever it sits
        empty_cols = [k for k in range(K) if np.all(P[:, k] <= gem.epsilon)]
        if empty_cols:
            ctx.count("rel:existing_empty_cluster")
            if np.any(g0[:, empty_cols] != 0):
                ctx.violation("empty-cluster-gradient", "empty-cluster-grad/" + mech,
                              observed={"empty_columns": empty_cols, "grad": g0[:, empty_cols][:4], "P": P}, expected="zeros")
        # the gradient handed back by the first call belongs to the caller: the later calls (same shapes among them)
        # must not have rewritten it
        ctx.count("rel:earlier_gradient_intact")
        if not np.array_equal(np.asarray(g0_obj), g0, equal_nan=True):
            ctx.violation("gradient-ownership", "gradient-buffer-overwritten-by-later-call/" + mech,
                          observed={"max_abs_change": float(np.nanmax(np.abs(np.asarray(g0_obj) - g0))), "shape": list(g0.shape)},
                          expected="the returned gradient keeps its values")
        if compared and N >= 2:
            ctx.distinct(cname, bool(gem.ovo), P.shape, P.tobytes().hex()[:64])
            ctx.sample({"class": cname, "ovo": bool(gem.ovo), "shape": [N, K], "score": v0, "relations": compared,
                        "closed_simplex": closed, "mode": self.mode})


def setup(ctx):
    return State(ctx)


def reach_targets(reach):
    import gemclus.gemini as gg
    for name in _gem.CONCRETE:
        reach.add_class(getattr(gg, name), {"evaluate"})


SCALES = (0.1, 0.5, 1.0, 2.0, 4.0, 8.0, 30.0)


def run_case(case, ctx, st):
    if case["kind"] == "direct":
        st.mode = "direct"
        for idx in range(case["i0"], case["i1"]):
            info, gem, P, L, A, X = _gem.direct_case(case["seed"], ID, idx, nmax=14, scales=SCALES, big=True)
            st.rng = gen.rng_for(case["seed"], ID, "mon", idx)
            N, K = P.shape
            variant = idx % 8
            if variant == 1:      # one-hot rows
                Q = np.zeros_like(P)
                Q[np.arange(N), P.argmax(1)] = 1.0
                P = Q
            elif variant == 2:    # exact zeros inside rows
                Q = P.copy()
                Q[:, 0] = 0.0
                P = Q / Q.sum(1, keepdims=True)
            elif variant == 3:    # predictions that do not depend on the sample
                P = np.repeat(P[:1], N, axis=0)
            elif variant == 4 and N >= K:   # balanced hard partition -> MI = log K
                m = (N // K) * K
                if m >= K:
                    lab = np.repeat(np.arange(K), m // K)
                    lab = lab[st.rng.permutation(m)]
                    Q = np.zeros((m, K))
                    Q[np.arange(m), lab] = 1.0
                    P = Q
                    A = None if A is None else np.asarray(A)[:m][:, :m]
                    if idx % 16 == 4:
                        gem = gen.gemini_from_desc("mi")
                        A = None
            elif variant == 5:    # an empty cluster already present
                Q = P.copy()
                Q[:, -1] = 0.0
                P = Q / Q.sum(1, keepdims=True)
            info["variant"] = variant
            ctx.case = {"kind": "direct", "seed": case["seed"], "i0": idx, "i1": idx + 1, "info": info}
            gem(P, A)
            if variant in (1, 4) and np.all((P == 0) | (P == 1)):
                # hard assignments handed over as what they are - an integer or boolean one-hot matrix: the same finite
                # score as for the float matrix holding the same numbers
                st.tap.enabled = False
                try:
                    v_float = _val(gem.evaluate(P.astype(float), A))
                    for dt in (np.int64, bool):
                        try:
                            v_dt = _val(gem.evaluate(P.astype(dt), A))
                        except Exception as e:
                            v_dt = e
                        ctx.count("onehot_dtype_compared")
                        if isinstance(v_dt, Exception) or not (abs(v_dt - v_float) <= 1e-9 * max(1.0, abs(v_float))):
                            ctx.violation("one-hot-dtype", "one-hot-score-depends-on-dtype/" + str(_gem.class_distance(gem)),
                                          observed={"dtype": np.dtype(dt).name, "score": repr(v_dt)[:100], "P": P},
                                          expected={"score_for_float_matrix": v_float})
                            break
                finally:
                    st.tap.enabled = True
    else:
        rng = gen.rng_for(case["seed"], ID, "fit", case["i"])
        st.rng = gen.rng_for(case["seed"], ID, "monfit", case["i"])
        st.mode = "fit"
        names = gen.GRADIENT_ESTIMATORS
        name = names[case["i"] % len(names)]
        n, d = int(rng.integers(5, 13)), int(rng.integers(1, 4))
        X = gen.make_data(rng, n, d, "blobs")
        params, pre = gen.random_config(rng, name, n, d, max_iter=int(rng.integers(2, 7)))
        params["learning_rate"] = float(10 ** rng.uniform(-2.0, -0.3))
        y = gen.precomputed_for(rng, pre, n)
        est = gen.build_estimator(name, params)
        ctx.count("fits")
        try:
            est.fit(X, y)
        except Exception as e:
            ctx.count("fit_raised:" + type(e).__name__)
