"""C10 - mini-batches partition the data and stay aligned with the affinity matrix.

Producer side: every (X_batch, affinity_batch) yielded by the real _batchify (class-level hook).
Consumer side: what the training loop really used - the rows handed to model._infer and the affinity handed to
GEMINI.evaluate at each step - which also covers mlcl-decorated models whose outer generator re-slices the data.
Unique-id coding: rows of X are pairwise distinct and precomputed affinities are coded A[i,j] = 1 + min*n + max.
"""
import math

import numpy as np

from .. import gen
from ..attach import Patcher
from . import _gem, _train

ID = "C10"
RULE = ("fits (and sparse paths) of every batched family and the nonparametric ones, n 1..40, batch_size 1..n+3 and None, "
        "max_iter 1..5, affinity None / computed / precomputed-coded, plain and mlcl-decorated; per epoch: decoded ids "
        "disjoint, cover range(n), <= batch_size rows, ceil(n/bs) batches, affinity block == A[ids][:,ids]; per step: rows "
        "given to _infer and affinity given to evaluate belong to the same ids; steps == max_iter*ceil(n/bs); path "
        "validation walks consecutive diagonal blocks. One evaluation = one epoch. Non-trivial = epoch with >=2 batches "
        "or an affinity block compared; distinct by (estimator, n, batch size, epoch permutation).")
ASSUMPTIONS = ["rows of the generated X are pairwise distinct, so a batch row identifies its sample"]
EVAL_COUNTER = "epochs"
REQUIRED = {"quick": {"epochs": 1500, "epochs_multi_batch": 600, "affinity_blocks_checked": 1500, "consumer_steps": 2500,
                      "decorated_consumer_steps": 200, "dynamic_paths": 3, "batch_size_set_after_construction": 120, "batch_size_set_after_decoration": 15, "fits_step_count_checked": 400, "nonparametric_epochs": 100,
                      "path_validation_blocks": 200, "coded_affinity_fits": 25, "tail_batches": 200},
            "thorough": {"epochs": 30000, "consumer_steps": 60000, "path_validation_blocks": 4000}}
SHARD_TIMEOUT = {"quick": 1200, "thorough": 7000}


def cases(tier, seed):
    n = 640 if tier == "quick" else 12000
    return [{"kind": "fit", "seed": seed, "i": i} for i in range(n)]


class State(_train.Listener):
    def __init__(self, ctx):
        self.ctx = ctx
        self.tap = _train.TrainTap(ctx, self)
        self.gtap = _gem.GeminiTap(self.on_eval, ctx)
        self.patcher = Patcher()
        self.reset()
        seen = set()
        for name in gen.GRADIENT_ESTIMATORS:
            for cls in gen.get_class(name).__mro__:
                if "_infer" in vars(cls) and cls not in seen and not getattr(vars(cls)["_infer"], "__isabstractmethod__", False):
                    seen.add(cls)
                    self.patcher.setattr(cls, "_infer", self._wrap_infer(vars(cls)["_infer"]))
        for name in gen.SPARSE:
            for cls in gen.get_class(name).__mro__:
                if "get_selection" in vars(cls) and ("gs", cls) not in seen:
                    seen.add(("gs", cls))
                    self.patcher.setattr(cls, "get_selection", self._wrap_sel(vars(cls)["get_selection"]))
        import gemclus.sparse._base_sparse as bs
        self.orig_val = bs.compute_val_score
        self.patcher.rebind(bs.compute_val_score, self._wrap_val(bs.compute_val_score))

    def reset(self):
        self.model = None
        self.n = None
        self.bs = None
        self.expect_nonparam = False
        self.steps = 0
        self.epochs = 0
        self.last_infer_X = None
        self.last_eval_A = None
        self.in_val = None
        self.Afull = None
        self.Xfull = None
        self.user_y = None
        self.decorated = False
        self.dynamic_path = False
        self.last_selection = None

    def close(self):
        self.patcher.restore()
        self.gtap.close()
        self.tap.close()

    # ---- consumer side -----------------------------------------------------------------------------------
    def _wrap_infer(self, orig):
        st = self

        def _infer(self, X, retain=True):
            if retain and st.model is self:
                st.last_infer_X = X
            return orig(self, X, retain)
        _infer.__wrapped__ = orig
        return _infer

    def _wrap_sel(self, orig):
        st = self

        def get_selection(self_):
            out = orig(self_)
            if st.model is self_ and st.in_val is None:
                st.last_selection = np.array(out, copy=True)
            return out
        get_selection.__wrapped__ = orig
        return get_selection

    def on_eval(self, gem, P, A, return_grad, res, orig):
        if self.in_val is not None:
            self.in_val.append((P, A))
        elif return_grad:
            self.last_eval_A = A

    def step_before(self, model, opt, params, grads):
        if model is not self.model:
            return
        self.steps += 1
        ctx = self.ctx
        lb = self.tap.last_batch
        Xc, Ac = self.last_infer_X, self.last_eval_A
        self.last_infer_X = None
        self.last_eval_A = None
        if Xc is None:
            ctx.count("step_without_infer")
            return
        try:
            ids = np.arange(self.n) if self.expect_nonparam else _train.decode_ids(self.Xfull, Xc)
        except _train.AmbiguousRows:
            ctx.count("ambiguous_rows_skipped")
            return
        if ids is None:
            ctx.violation("consumer-batch", "training-rows-not-from-data", observed={"rows": Xc}, expected="rows of X")
            return
        ctx.count("consumer_steps")
        if self.decorated:
            ctx.count("decorated_consumer_steps")
            # where the decoration records the indices is its own business (`_batchify.indices` today); an absent attribute
            # cannot be read - the record is then judged by its effect on the constraint gradient (C14)
            rec = getattr(model._batchify, "indices", None)
            if rec is None:
                ctx.count("recorded_indices_attribute_absent")
            elif [int(x) for x in rec] != [int(x) for x in ids]:
                ctx.violation("recorded-indices", "decorated-indices-wrong", observed={"recorded": rec, "true_ids": ids},
                              expected="equal")
            else:
                ctx.count("recorded_indices_checked")
        if self.Afull is None and Ac is not None and self.dynamic_path:
            # no full matrix went through _batchify although the objective received one: it was built some other way.
            # What counts is its content - the rows and columns `ids` of the full affinity of the data restricted to the
            # features selected when the path step began (or of all the data)
            gem = model.get_gemini()
            cands = [np.asarray(self.Xfull)]
            if self.last_selection is not None and len(self.last_selection):
                cands.append(np.asarray(self.Xfull)[:, self.last_selection])
            ok = False
            for Xc_ in cands:
                try:
                    full = np.asarray(gem.compute_affinity(Xc_))
                    blk = full[ids][:, ids]
                    ok = ok or (np.shape(Ac) == blk.shape and np.allclose(np.asarray(Ac), blk, rtol=1e-10, atol=1e-12 * max(1.0, float(np.max(np.abs(full))))))
                except Exception:
                    pass
            ctx.count("affinity_built_outside_batchify_compared")
            if not ok:
                ctx.violation("consumer-affinity", "training-affinity-not-aligned-with-rows",
                              observed={"ids": ids, "affinity_used": Ac, "note": "no full matrix was handed to _batchify"},
                              expected="rows / columns ids of the full affinity of the selected features")
            return
        if (self.Afull is None) != (Ac is None):
            ctx.violation("consumer-affinity", "affinity-none-mismatch",
                          observed={"full_is_none": self.Afull is None, "batch_is_none": Ac is None}, expected="same")
            return
        if Ac is not None:
            want = np.asarray(self.Afull)[ids][:, ids]
            if np.shape(Ac) != want.shape or not np.array_equal(np.asarray(Ac), want):
                ctx.violation("consumer-affinity", "training-affinity-not-aligned-with-rows",
                              observed={"ids": ids, "affinity_used": Ac}, expected={"block": want})
        if lb is not None and lb[0] is model and not self.expect_nonparam:
            pid = lb[5] if lb[5] is not None else _train.decode_ids(self.Xfull, lb[3])  # Xfull unambiguous here
            if pid is not None and [int(x) for x in pid] != [int(x) for x in ids]:
                ctx.violation("consumer-batch", "training-rows-differ-from-yielded-batch",
                              observed={"yielded_ids": pid, "used_ids": ids}, expected="equal")

    # ---- producer side -----------------------------------------------------------------------------------
    def epoch_start(self, model, X, A):
        if model is self.model:
            self.Afull = A
            if X is not None:
                self.Xfull = np.asarray(X, dtype=float)

    def epoch_end(self, model, X, A, batches):
        if model is not self.model:
            return
        ctx = self.ctx
        self.epochs += 1
        ctx.count("epochs")
        n = self.n
        if self.expect_nonparam:
            ctx.count("nonparametric_epochs")
            ok = len(batches) == 1 and np.shape(batches[0][0]) == np.shape(X) and np.array_equal(batches[0][0], X) \
                and ((A is None and batches[0][1] is None) or (A is not None and np.array_equal(batches[0][1], A)))
            if not ok:
                ctx.violation("epoch-partition", "nonparametric-not-full-data", observed={"n_batches": len(batches)},
                              expected="one batch = (X, A)")
            return
        bs = n if self.bs is None else self.bs
        all_ids = []
        for (Xb, Ab, ids) in batches:
            if ids is None:
                try:
                    ids = _train.decode_ids(X, Xb)
                except _train.AmbiguousRows:
                    ctx.count("ambiguous_rows_skipped")
                    return
            if ids is None:
                ctx.violation("epoch-partition", "batch-rows-not-from-data", observed={"Xb": Xb}, expected="rows of X")
                return
            if len(ids) > bs or len(ids) == 0:
                ctx.violation("epoch-partition", "batch-too-large-or-empty", observed={"rows": len(ids), "batch_size": bs},
                              expected="1..batch_size rows")
            if (A is None) != (Ab is None):
                ctx.violation("affinity-block", "affinity-block-none-mismatch", observed={"A_none": A is None, "Ab_none": Ab is None},
                              expected="same")
            elif A is not None:
                want = np.asarray(A)[ids][:, ids]
                ctx.count("affinity_blocks_checked")
                if np.shape(Ab) != want.shape or not np.array_equal(np.asarray(Ab), want):
                    ctx.violation("affinity-block", "affinity-block-misaligned",
                                  observed={"ids": ids, "block": Ab}, expected={"block": want})
            all_ids.extend(int(x) for x in ids)
        want_nb = math.ceil(n / bs)
        if len(batches) != want_nb:
            ctx.violation("epoch-partition", "wrong-number-of-batches", observed={"batches": len(batches), "n": n, "batch_size": bs},
                          expected=want_nb)
        if sorted(all_ids) != list(range(n)):
            missing = sorted(set(range(n)) - set(all_ids))
            dup = sorted({x for x in all_ids if all_ids.count(x) > 1})
            ctx.violation("epoch-partition", "epoch-not-a-partition", observed={"missing": missing, "duplicated": dup, "n": n,
                                                                              "batch_size": bs}, expected="each sample once")
        if len(batches) >= 2:
            ctx.count("epochs_multi_batch")
            if n % bs:
                ctx.count("tail_batches")
            ctx.distinct(type(model).__name__, n, bs, tuple(all_ids))
            ctx.sample({"estimator": type(model).__name__, "n": n, "batch_size": bs, "epoch_order": all_ids[:30],
                        "batch_sizes": [len(b[0]) if b[0] is not None else None for b in batches],
                        "decorated": self.decorated})

    # ---- path validation score ---------------------------------------------------------------------------
    def _wrap_val(self, orig):
        st = self

        def compute_val_score(clf, X, y, batch_size, gemini_objective):
            if clf is not st.model:
                return orig(clf, X, y, batch_size, gemini_objective)
            st.in_val = []
            try:
                res = orig(clf, X, y, batch_size, gemini_objective)
                calls = st.in_val
            finally:
                st.in_val = None
            st.ctx.guard(st.check_val, "check_val")(clf, X, y, batch_size, gemini_objective, calls)
            return res
        compute_val_score.__wrapped__ = orig
        return compute_val_score

    def check_val(self, clf, X, y, bs, gem, calls):
        ctx = self.ctx
        n = len(X)
        want_nb = math.ceil(n / bs)
        if len(calls) != want_nb:
            ctx.violation("path-validation", "validation-wrong-number-of-blocks", observed=len(calls), expected=want_nb)
            return
        for b, (P, A) in enumerate(calls):
            j = b * bs
            Xb = X[j:j + bs]
            Pw = clf.predict_proba(Xb)
            ctx.count("path_validation_blocks")
            if P.shape != Pw.shape or not np.allclose(P, Pw, rtol=0, atol=1e-12, equal_nan=True):
                ctx.violation("path-validation", "validation-predictions-not-consecutive-block", observed={"block": b},
                              expected="predict_proba(X[j:j+bs])")
            if y is not None:
                want = np.asarray(y)[j:j + bs][:, j:j + bs]
            elif clf.dynamic:
                continue
            else:
                want = gem.compute_affinity(Xb)
            same = (want is None and A is None) or (want is not None and A is not None and np.shape(A) == np.shape(want) and (
                np.array_equal(A, want) if y is not None else np.allclose(A, want, rtol=1e-12, atol=1e-12)))
            if not same:
                ctx.violation("path-validation", "validation-affinity-not-diagonal-block", observed={"block": b, "A": A},
                              expected={"block": want})


def setup(ctx):
    return State(ctx)


def reach_targets(reach):
    from gemclus._base_gemini import DiscriminativeModel
    from gemclus.nonparametric._categorical_models import CategoricalModel
    import gemclus.mlcl as m
    import gemclus.sparse._base_sparse as bs
    reach.add_class(DiscriminativeModel, {"_batchify", "fit"})
    reach.add_class(CategoricalModel, {"_batchify"})
    reach.add_function(m.add_mlcl_constraint)
    reach.add_function(bs.compute_val_score)


def run_case(case, ctx, st):
    i = case["i"]
    rng = gen.rng_for(case["seed"], ID, "fit", i)
    names = gen.GRADIENT_ESTIMATORS
    name = names[i % len(names)]
    n = int(rng.integers(1, 41)) if rng.random() < 0.85 else int(rng.integers(1, 5))
    d = int(rng.integers(1, 4)) if name == "Douglas" else int(rng.integers(1, 6))
    X = gen.distinct_rows(rng, n, d, 2.0)
    K = int(rng.integers(1, min(4, n) + 1))
    epochs = int(rng.integers(1, 6))
    params, pre = gen.random_config(rng, name, n, d, K=K, max_iter=epochs, allow_callable=True)
    if name not in gen.NONPARAMETRIC:
        r = rng.random()
        params["batch_size"] = None if r < 0.2 else (int(rng.integers(1, n + 4)))
    y = None
    coded = False
    if pre is not None:
        # half of the coded matrices identify ordered pairs (row id, column id): the block must keep rows as rows
        y = gen.coded_affinity(n, ordered=bool(rng.random() < 0.5))
        coded = True
        ctx.count("coded_affinity_fits")
    # the batch size is a hyperparameter like any other: it may be given at construction or later through set_params
    # (also after the model was decorated), and it is the value in force when fit runs that counts
    late_bs = name not in gen.NONPARAMETRIC and rng.random() < 0.4
    build_params = dict(params)
    if late_bs:
        build_params["batch_size"] = None if rng.random() < 0.5 else int(rng.integers(1, n + 4))
    est = gen.build_estimator(name, build_params)
    use_path = name in gen.SPARSE and i % 3 == 0 and n >= 4 and d >= 2
    decorated = (not use_path) and rng.random() < 0.3 and n >= 4
    if decorated:
        from gemclus import add_mlcl_constraint
        perm = [int(x) for x in rng.permutation(n)]
        est = add_mlcl_constraint(est, [(perm[0], perm[1])], [(perm[2], perm[3])], float(rng.uniform(0.1, 2)))
    if late_bs:
        est.set_params(batch_size=params["batch_size"])
        ctx.count("batch_size_set_after_construction")
        if decorated:
            ctx.count("batch_size_set_after_decoration")
    st.reset()
    st.model = est
    st.n = n
    st.bs = params.get("batch_size")
    st.expect_nonparam = name in gen.NONPARAMETRIC
    st.Xfull = None
    st.decorated = decorated
    st.user_y = y
    ctx.case = dict(case, estimator=name, params=params, n=n, d=d, coded=coded, decorated=decorated, path=use_path)
    try:
        if use_path:
            dyn = "dynamic" in est.get_params() and y is None and rng.random() < 0.5
            if dyn and rng.random() < 0.6:
                # a kernel whose entries depend on the sample set it is computed on
                if "kernel" in est.get_params():
                    est.set_params(kernel=gen.CALLABLES["cb_centred"], kernel_params=None)
                elif "gemini" in est.get_params() and name != "SparseLinearMI":
                    import gemclus.gemini as gg
                    est.set_params(gemini=gg.MMDGEMINI(kernel=gen.CALLABLES["cb_centred"], ovo=bool(rng.random() < 0.5)))
            est.set_params(alpha=0.2, dynamic=dyn) if "dynamic" in est.get_params() else est.set_params(alpha=0.2)
            st.dynamic_path = dyn
            if dyn:
                ctx.count("dynamic_paths")
            est.path(X, y, alpha_multiplier=2.0, min_features=max(1, d - 1), max_patience=2)
            ctx.count("paths")
        else:
            est.fit(X, y)
    except Exception as e:
        ctx.count("fit_raised:" + type(e).__name__)
        st.model = None
        return
    finally:
        pass
    if not use_path:
        bs = n if (st.bs is None or st.expect_nonparam) else st.bs
        want_steps = epochs * math.ceil(n / bs)
        ctx.count("fits_step_count_checked")
        if st.steps != want_steps or st.epochs != epochs or est.n_iter_ != epochs:
            ctx.violation("step-count", "wrong-number-of-steps-or-epochs",
                          observed={"steps": st.steps, "epochs": st.epochs, "n_iter_": est.n_iter_},
                          expected={"steps": want_steps, "epochs": epochs})
        if coded and st.Afull is not None and not np.array_equal(st.Afull, y):
            ctx.violation("affinity-block", "precomputed-affinity-not-forwarded", observed={"A": st.Afull}, expected="the user's matrix")
    st.model = None
