"""Shared by C09 / C19: random Kauri fits with small structural limits, query points incl. exact thresholds."""
import numpy as np

from .. import gen


def kauri_case(seed, prop, i, nmax=40, big=0.02):
    rng = gen.rng_for(seed, prop, "kfit", i)
    if big and i % 50 == 17:
        # a long fit (one case in fifty, deterministically): dozens of clusters, up to ~100 leaves, no structural limit
        # binding early - whatever bookkeeping grows with the tree is exercised well past its first allocation; every
        # other one of them asks for more than 64 clusters
        over64 = (i // 50) % 2 == 0
        n, d = (int(rng.integers(130, 161)) if over64 else int(rng.integers(90, 161))), int(rng.integers(1, 4))
        X = gen.make_data(rng, n, d, "blobs", centers=int(rng.integers(3, 12)))
        K = int(rng.integers(66, 81)) if over64 else int(rng.integers(34, max(36, int(0.6 * n))))
        p = {"random_state": gen.subseed(rng) % 100000, "max_clusters": K,
             "kernel": ["rbf", "linear", "laplacian"][int(rng.integers(0, 3))], "min_samples_leaf": 1, "min_samples_split": 2}
        if rng.random() < 0.3:
            p["min_samples_leaf"], p["min_samples_split"] = 2, int(rng.integers(4, 7))
        return rng, X, None, p, {"n": n, "d": d, "data": "blobs-big", "log10_unit": 0}
    n = int(rng.integers(1, nmax + 1)) if rng.random() < 0.9 else int(rng.integers(1, 6))
    d = int(rng.integers(1, 6))
    nonneg = bool(rng.random() < 0.1)
    kind = "nonneg" if nonneg else ["blobs", "ties", "constcol", "duprows", "ties"][int(rng.integers(0, 5))]
    X = gen.make_data(rng, n, d, kind, centers=int(rng.integers(1, 6)))
    unit = 0
    if rng.random() < 0.25:
        # data recorded in other units: thresholds are data values, so they come out as 3.5e-10, 2.7e+20, ...
        unit = int(rng.integers(-30, 31))
        X = X * 10.0 ** unit
    p = {"random_state": gen.subseed(rng) % 100000, "max_clusters": int(rng.integers(1, 9))}
    if rng.random() < 0.6:
        p["max_depth"] = int(rng.integers(1, 5))
    leaf = int(rng.integers(1, 7)) if rng.random() < 0.5 else 1
    p["min_samples_leaf"] = leaf
    p["min_samples_split"] = int(max(2, 2 * leaf + (rng.integers(0, 6) if rng.random() < 0.7 else 0)))
    if rng.random() < 0.3:
        p["min_samples_split"] = int(max(p["min_samples_split"], rng.integers(2, 13)))
    if rng.random() < 0.4:
        p["max_features"] = int(rng.integers(1, d + 1))
    if rng.random() < 0.5:
        p["max_leaves"] = int(rng.integers(2, 7))
    ks = [k for k in gen.KERNELS if nonneg or k not in ("chi2", "additive_chi2")]
    y = None
    if rng.random() < 0.15:
        p["kernel"] = "precomputed"
    else:
        p["kernel"] = ks[int(rng.integers(0, len(ks)))]
    if rng.random() < 0.125:
        p["verbose"] = True        # messages must not change what is computed
    if n < leaf:
        n = leaf + int(rng.integers(0, 4))
        X = gen.make_data(rng, n, d, kind)
    if p["kernel"] == "precomputed":
        y = gen.sym_matrix(rng, n, ["psd", "indefinite"][int(rng.integers(0, 2))])
    return rng, X, y, p, {"n": n, "d": d, "data": kind, "log10_unit": unit}


def query_points(rng, X, tree, m=25):
    """fresh points, points exactly on thresholds, training points"""
    n, d = X.shape
    spread = float(np.max(np.abs(X))) if X.size else 1.0
    spread = spread if spread > 0 else 1.0
    Q = [rng.normal(scale=1.5 * spread, size=(m, d)), X[rng.integers(0, n, size=min(m, n))]]
    thr = [(f, t) for f, t in zip(tree.features, tree.thresholds) if f is not None]
    for (f, t) in thr:
        q = rng.normal(scale=spread, size=(3, d))
        q[0, f] = t
        q[1, f] = np.nextafter(t, np.inf)
        q[2, f] = np.nextafter(t, -np.inf)
        Q.append(q)
    if thr:
        # points sitting on several thresholds at once
        q = rng.normal(scale=spread, size=(4, d))
        for (f, t) in thr:
            q[:, f] = t
        Q.append(q)
    return np.vstack(Q)
