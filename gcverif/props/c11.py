"""C11 - kernel, metric and GEMINI choices are forwarded faithfully; precomputed = named."""
import warnings

import numpy as np

from .. import gen
from ..attach import Patcher
from ..refs.gemini import CLASS_DISTANCE
from . import _gem, _train

ID = "C11"
NATIVE = True
RULE = ("every estimator exposing kernel / metric / ovo / gemini / base_kernel x every named kernel and metric with random "
        "parameter dictionaries, callables, precomputed matrices x datasets: (a) the affinity handed to _batchify by fit "
        "and to GEMINI.evaluate by score equals the monitor's own scikit-learn evaluation of what the parameters describe "
        "(identity for precomputed), KernelRIM feature kernels and the kernel reaching Kauri's find_best_split likewise; "
        "(b) the GEMINI objects evaluated during training and scoring have the documented class and mode; (c) differential "
        "run named vs precomputed with the captured matrix: fitted arrays, labels, scores and path histories "
        "bit-identical. One evaluation = one fit (or differential pair). Non-trivial = affinity compared or pair compared; "
        "distinct by (estimator, parameters).")
ASSUMPTIONS = ["the precomputed matrix of the differential run is the very matrix captured from the named run",
               "for Kauri a missing precomputed matrix may either raise or fall back with a warning (documented in the code)"]
EVAL_COUNTER = "fits"
REQUIRED = {"quick": {"fits": 400, "train_affinity_compared": 200, "score_affinity_compared": 200, "objective_class_checked": 350,
                      "differential_pairs": 100, "kernelrim_kernels_compared": 40, "kauri_kernels_compared": 15,
                      "kernel_params_nonempty": 60, "missing_precomputed_refused": 10, "differential_paths": 5},
            "thorough": {"fits": 8000, "differential_pairs": 2000}}
SHARD_TIMEOUT = {"quick": 1200, "thorough": 7000}


def cases(tier, seed):
    n = 540 if tier == "quick" else 9000
    return [{"kind": "fit", "seed": seed, "i": i} for i in range(n)]


class State(_train.Listener):
    def __init__(self, ctx):
        import gemclus.tree.kauri as kk
        from gemclus.linear import KernelRIM
        self.ctx = ctx
        self.tap = _train.TrainTap(ctx, self)
        self.gtap = _gem.GeminiTap(self.on_eval, ctx)
        self.patcher = Patcher()
        self.model = None
        self.train_aff = "unset"
        self.evals = []
        self.kauri_kernel = None
        self.krim = []
        orig_fbs = kk.find_best_split

        def fbs(kernel, *a, **k):
            if self.kauri_kernel is None:
                self.kauri_kernel = np.array(kernel, copy=True)
            return orig_fbs(kernel, *a, **k)
        self.patcher.setattr(kk, "find_best_split", fbs)
        orig_ck = vars(KernelRIM).get("_compute_kernel")
        if orig_ck is None:
            # the private helper does not exist in this tree: the kernels KernelRIM computes are then only seen through
            # their effect (predict_proba on the training data and on fresh points, checked by the differential clauses)
            ctx.count("kernelrim_kernel_tap_absent")
        else:
            def _compute_kernel(self_, X, *a, **k):
                out = orig_ck(self_, X, *a, **k)
                if self_ is self.model:
                    self.krim.append((np.array(X, dtype=float, copy=True), np.array(out, copy=True)))
                return out
            self.patcher.setattr(KernelRIM, "_compute_kernel", _compute_kernel)

    def close(self):
        self.patcher.restore()
        self.gtap.close()
        self.tap.close()

    def reset(self, model):
        self.model = model
        self.train_aff = "unset"
        self.evals = []
        self.kauri_kernel = None
        self.krim = []

    def epoch_start(self, model, X, A):
        if model is self.model and isinstance(self.train_aff, str):
            self.train_aff = A

    def on_eval(self, gem, P, A, return_grad, res, orig):
        if self.model is not None:
            self.evals.append((type(gem).__name__, bool(getattr(gem, "ovo", False)), A, return_grad, len(P)))


def setup(ctx):
    return State(ctx)


def reach_targets(reach):
    import gemclus.gemini as gg
    reach.add_class(gg.MMDGEMINI, {"compute_affinity"})
    reach.add_class(gg.WassersteinGEMINI, {"compute_affinity"})
    for n in gen.ESTIMATORS:
        if "get_gemini" in vars(gen.get_class(n)):
            reach.add_class(gen.get_class(n), {"get_gemini"})
    from gemclus._base_gemini import DiscriminativeModel
    reach.add_class(DiscriminativeModel, {"get_gemini", "score"})
    reach.add_class(gen.get_class("Kauri"), {"_compute_kernel"})
    reach.add_class(gen.get_class("KernelRIM"), {"_compute_kernel"})


def same(a, b, exact=False):
    if a is None or b is None:
        return a is None and b is None
    a, b = np.asarray(a), np.asarray(b)
    if a.shape != b.shape:
        return False
    return bool(np.array_equal(a, b, equal_nan=True)) if exact else bool(np.allclose(a, b, rtol=1e-12, atol=1e-12, equal_nan=True))


def fitted_state(est, name):
    if name == "Kauri":
        t = est.tree_
        return [np.asarray(est.labels_), np.asarray(t.children_left), np.asarray([-1 if f is None else f for f in t.features]),
                np.asarray([np.nan if v is None else v for v in t.thresholds], dtype=float), np.asarray(t.target),
                np.asarray(t.gains, dtype=float)]
    return [np.asarray(w) for w in est._get_weights()] + [np.asarray(est.labels_)]


def run_case(case, ctx, st):
    i = case["i"]
    rng = gen.rng_for(case["seed"], ID, "fit", i)
    pool = ([n for n in gen.ESTIMATORS if n in gen.MMD_VARIANTS or n in gen.WASS_VARIANTS] * 2 + gen.GENERIC
            + ["RIM", "KernelRIM", "KernelRIM", "SparseLinearMI", "Kauri", "Kauri"])
    name = pool[i % len(pool)]
    n = int(rng.integers(6, 22))
    d = int(rng.integers(1, 4)) if name == "Douglas" else int(rng.integers(1, 5))
    nonneg = bool(rng.random() < 0.2)
    X = gen.make_data(rng, n, d, "nonneg" if nonneg else "blobs")
    params, pre = gen.random_config(rng, name, n, d, max_iter=int(rng.integers(1, 5)), nonneg=nonneg)
    if name in gen.GENERIC and rng.random() < 0.7:
        params["gemini"] = gen.random_gemini_desc(rng, nonneg=nonneg) if rng.random() < 0.7 else [None, "mmd_ovo", "wasserstein_ova", "mi", "tv_ovo"][int(rng.integers(0, 5))]
        g = params["gemini"]
        pre = "kernel" if isinstance(g, dict) and g.get("kernel") == "precomputed" else ("metric" if isinstance(g, dict) and g.get("metric") == "precomputed" else None)
    y = gen.precomputed_for(rng, pre, n)
    if name == "Kauri" and params.get("kernel") == "precomputed":
        y = gen.sym_matrix(rng, n, "psd")
    ctx.case = dict(case, estimator=name, params=params, n=n, d=d, pre=pre)
    ctx.count("fits")
    est = gen.build_estimator(name, params)
    st.reset(est)
    use_path = name in gen.SPARSE and i % 5 == 0 and d >= 2
    path_args = dict(alpha_multiplier=2.0, min_features=1, max_patience=2)
    try:
        with warnings.catch_warnings():
            warnings.simplefilter("ignore")
            if use_path:
                est.set_params(alpha=0.05, dynamic=False) if "dynamic" in est.get_params() else est.set_params(alpha=0.05)
                params = dict(params, alpha=0.05)
                if "dynamic" in params:
                    params["dynamic"] = False
                hist = est.path(X, y, **path_args)
            else:
                est.fit(X, y)
                hist = None
            train_evals = list(st.evals)
            st.evals = []
            score = est.score(X, y)
            score_evals = list(st.evals)
    except Exception as e:
        ctx.count("run_raised:" + type(e).__name__)
        st.reset(None)
        return
    spec_pre = None
    if name == "Kauri":
        from sklearn.metrics import pairwise_kernels
        wantK = y if params["kernel"] == "precomputed" else pairwise_kernels(X, metric=params["kernel"])
        if st.kauri_kernel is not None:
            ctx.count("kauri_kernels_compared")
            if not same(st.kauri_kernel, wantK, exact=params["kernel"] == "precomputed"):
                ctx.violation("kauri-kernel", "kauri-kernel-not-as-named", observed={"kernel": params["kernel"]}, expected="sklearn pairwise_kernels / user's matrix")
        captured = st.kauri_kernel if st.kauri_kernel is not None else np.asarray(wantK)
        dist = None
    else:
        dist, ovo, spec = gen.expected_objective(name, params)
        want = gen.expected_affinity(spec, X, y)
        # (a) training affinity
        if name == "KernelRIM":
            from sklearn.metrics import pairwise_kernels
            bk, bp = params.get("base_kernel", "linear"), params.get("base_kernel_params") or {}
            for (Xq, out) in st.krim[:3]:
                ref = gen.CALLABLES[bk["callable"]](Xq, X) if isinstance(bk, dict) else pairwise_kernels(Xq, X, metric=bk, **bp)
                ctx.count("kernelrim_kernels_compared")
                if bp:
                    ctx.count("kernel_params_nonempty")
                if not same(out, ref):
                    ctx.violation("kernelrim-kernel", "kernelrim-kernel-not-base-kernel-against-training-data",
                                  observed={"base_kernel": repr(bk), "params": bp}, expected="pairwise_kernels(X, X_train, ...)")
                    break
        if not isinstance(st.train_aff, str):
            ctx.count("train_affinity_compared")
            if spec is not None and spec["params"]:
                ctx.count("kernel_params_nonempty")
            if not same(st.train_aff, want, exact=bool(spec and spec["precomputed"])):
                ctx.violation("training-affinity", f"training-affinity-not-as-described/{spec['type'] if spec else 'none'}",
                              observed={"estimator": name, "spec": spec, "got_none": st.train_aff is None}, expected="the described affinity")
        # score affinity
        if score_evals:
            ctx.count("score_affinity_compared")
            if not same(score_evals[-1][2], want, exact=bool(spec and spec["precomputed"])):
                ctx.violation("score-affinity", f"score-affinity-not-as-described/{spec['type'] if spec else 'none'}",
                              observed={"estimator": name, "spec": spec}, expected="the described affinity")
        # (b) class and mode of every objective evaluated
        ctx.count("objective_class_checked")
        for (cname, covo, A_, rg, m) in train_evals + score_evals:
            if CLASS_DISTANCE.get(cname) != dist or covo != ovo:
                ctx.violation("objective", f"objective-not-as-described/{name}",
                              observed={"class": cname, "ovo": covo, "params": params}, expected={"distance": dist, "ovo": ovo})
                break
        if isinstance(params.get("gemini"), dict) is False and name in gen.GENERIC and not isinstance(params.get("gemini"), (str, type(None))):
            pass
        captured = st.train_aff if not isinstance(st.train_aff, str) else None
    # (c) differential: named -> precomputed with the captured matrix
    named = (name == "Kauri" and params["kernel"] != "precomputed") or (name != "Kauri" and spec is not None and not spec["precomputed"] and captured is not None)
    if named and name != "KernelRIM":
        p2 = dict(params)
        if name == "Kauri":
            p2["kernel"] = "precomputed"
        elif name in gen.MMD_VARIANTS:
            p2["kernel"] = "precomputed"
            p2.pop("kernel_params", None)
        elif name in gen.WASS_VARIANTS:
            p2["metric"] = "precomputed"
            p2.pop("metric_params", None)
        else:
            if dist == "mmd":
                p2["gemini"] = {"cls": "MMDGEMINI", "ovo": ovo, "kernel": "precomputed", "params": None}
                if isinstance(params.get("gemini"), dict) and "epsilon" in params["gemini"]:
                    p2["gemini"]["epsilon"] = params["gemini"]["epsilon"]
            else:
                p2["gemini"] = {"cls": "WassersteinGEMINI", "ovo": ovo, "metric": "precomputed", "params": None}
                if isinstance(params.get("gemini"), dict) and "epsilon" in params["gemini"]:
                    p2["gemini"]["epsilon"] = params["gemini"]["epsilon"]
        if p2.get("dynamic"):
            p2["dynamic"] = False
            named = False     # dynamic mode recomputes the affinity on selected features: not comparable
        if named:
            est2 = gen.build_estimator(name, p2)
            st.reset(None)
            try:
                with warnings.catch_warnings():
                    warnings.simplefilter("ignore")
                    if use_path:
                        hist2 = est2.path(X, np.array(captured, copy=True), **path_args)
                    else:
                        est2.fit(X, np.array(captured, copy=True))
                        hist2 = None
                    score2 = est2.score(X, np.array(captured, copy=True))
                ctx.count("differential_pairs")
                s1, s2 = fitted_state(est, name), fitted_state(est2, name)
                flags = {"state": len(s1) == len(s2) and all(np.array_equal(a, b, equal_nan=True) for a, b in zip(s1, s2)),
                         "score": bool(score == score2 or (score != score and score2 != score2))}
                ok = all(flags.values())
                if hist is not None:
                    ctx.count("differential_paths")
                    # the validation score of a named run recomputes the kernel on X[:, selected] (another memory layout):
                    # its history may differ from the precomputed run in the last bits, everything else is identical
                    flags["best_weights"] = all(np.array_equal(a, b, equal_nan=True) for a, b in zip(hist[0], hist2[0]))
                    flags["geminis"] = len(hist[1]) == len(hist2[1]) and bool(np.allclose(hist[1], hist2[1], rtol=1e-9, atol=1e-6, equal_nan=True))  # sqrt of round-off when the MMD vanishes
                    for j, nm in ((2, "penalties"), (3, "alphas"), (4, "n_features")):
                        flags[nm] = list(map(repr, hist[j])) == list(map(repr, hist2[j]))
                    ok = all(flags.values())
                if not ok:
                    ctx.violation("named-vs-precomputed", f"precomputed-differs-from-named/{name}",
                                  observed={"params": params, "score_named": score, "score_precomputed": score2, "equal": flags, "geminis": [hist[1], hist2[1]] if hist is not None else None}, expected="bit-identical model, path and score")
            except Exception as e:
                ctx.violation("named-vs-precomputed", f"precomputed-run-raises/{name}/{type(e).__name__}", observed=repr(e)[:200], expected="same as named")
    # decoration by add_mlcl_constraint without any constraint must not change what the model trains with
    if name != "Kauri" and not use_path and i % 3 == 0:
        from gemclus import add_mlcl_constraint
        est4 = add_mlcl_constraint(gen.build_estimator(name, params))
        st.reset(None)
        try:
            with warnings.catch_warnings():
                warnings.simplefilter("ignore")
                est4.fit(X, None if y is None else np.array(y, copy=True))
                score4 = est4.score(X, y)
            ctx.count("decorated_without_constraints_compared")
            s1, s4 = fitted_state(est, name), fitted_state(est4, name)
            if not (len(s1) == len(s4) and all(np.array_equal(a, b, equal_nan=True) for a, b in zip(s1, s4))
                    and (score == score4 or (score != score and score4 != score4))):
                ctx.violation("decoration-neutral", f"decorated-without-constraints-differs-from-plain/{name}",
                              observed={"params": params, "score_plain": score, "score_decorated": score4}, expected="bit-identical")
        except Exception as e:
            ctx.violation("decoration-neutral", f"decorated-fit-raises/{name}/{type(e).__name__}", observed=repr(e)[:200], expected="same as plain")
    # missing precomputed matrix is an error (Kauri: error or warned fallback)
    if (pre is not None or (name == "Kauri" and params.get("kernel") == "precomputed")) and i % 2 == 0:
        est3 = gen.build_estimator(name, params)
        st.reset(None)
        try:
            with warnings.catch_warnings(record=True) as wl:
                warnings.simplefilter("always")
                est3.fit(X)
            if name == "Kauri" and any("precomputed" in str(w.message).lower() for w in wl):
                ctx.count("missing_precomputed_refused")
            else:
                ctx.violation("missing-matrix", f"missing-precomputed-matrix-accepted/{name}", observed="fit returned", expected="error")
        except Exception:
            ctx.count("missing_precomputed_refused")
    # hyperparameters changed after the fit: score speaks about "the GEMINI, OvA/OvO mode and affinity its parameters
    # describe" - the parameters in force when score is called
    if name in gen.MMD_VARIANTS + gen.WASS_VARIANTS + gen.GENERIC and not use_path and i % 3 != 0:
        newp = {}
        if name in gen.MMD_VARIANTS:
            ks = [k for k in gen.KERNELS if (nonneg or k not in ("chi2", "additive_chi2")) and k != params.get("kernel")]
            newp["kernel"] = ks[int(rng.integers(0, len(ks)))]
            newp["kernel_params"] = gen.kernel_params(rng, newp["kernel"]) or None
            newp["ovo"] = bool(rng.random() < 0.5)
        elif name in gen.WASS_VARIANTS:
            ms = [m for m in gen.METRICS if m != params.get("metric")]
            newp["metric"] = ms[int(rng.integers(0, len(ms)))]
            newp["metric_params"] = gen.metric_params(rng, newp["metric"]) or None
            newp["ovo"] = bool(rng.random() < 0.5)
        else:
            newp["gemini"] = gen.random_gemini_desc(rng, allow_precomputed=False, nonneg=nonneg, allow_callable=False) \
                if rng.random() < 0.6 else gen.GEMINI_NAMES[int(rng.integers(0, 13))]
        params2 = dict(params, **newp)
        try:
            est.set_params(**{k: (gen.gemini_from_desc(v) if k == "gemini" and isinstance(v, dict) else v) for k, v in newp.items()})
            st.reset(est)
            with warnings.catch_warnings():
                warnings.simplefilter("ignore")
                est.score(X)
            evs = list(st.evals)
        except Exception as e:
            ctx.count("score_after_set_params_raised:" + type(e).__name__)
            evs = []
        if evs:
            dist2, ovo2, spec2 = gen.expected_objective(name, params2)
            want2 = gen.expected_affinity(spec2, X, None)
            ctx.count("score_after_set_params_checked")
            cname, covo, A_, _, _ = evs[-1]
            if CLASS_DISTANCE.get(cname) != dist2 or covo != ovo2 or not same(A_, want2):
                ctx.violation("score-follows-parameters", f"score-ignores-parameters-changed-after-fit/{name}",
                              observed={"class": cname, "ovo": covo, "changed": newp, "affinity_as_described": bool(same(A_, want2))},
                              expected={"distance": dist2, "ovo": ovo2})
        # put the configuration back for what follows
        try:
            est.set_params(**{k: (gen.gemini_from_desc(params[k]) if k == "gemini" and isinstance(params.get(k), dict) else params.get(k, None if k.endswith("_params") else False))
                              for k in newp})
        except Exception:
            pass
    # the same object (and a clone of it) on data of another width: "the kernel named by its hyperparameters evaluated with
    # the given parameters" - what a parameter dictionary leaves out takes scikit-learn's default for THIS data
    if name != "Kauri" and pre is None and not use_path and not params.get("groups") and params.get("feature_mask") is None \
            and ((spec is not None and not spec["callable"]) or (name == "KernelRIM" and not isinstance(params.get("base_kernel"), dict))) \
            and (i % 2 == 1 or name == "KernelRIM"):
        from sklearn.base import clone
        d2 = [w for w in (1, 2, 3, 4, 5) if w != d][int(rng.integers(0, 4))]
        if name == "Douglas":
            d2 = [w for w in (1, 2, 3) if w != d][int(rng.integers(0, 2))]
        X2 = gen.make_data(rng, n, d2, "nonneg" if nonneg else "blobs")
        want2 = gen.expected_affinity(spec, X2, None)
        for who, obj in (("same-object", est), ("clone", None)):
            try:
                with warnings.catch_warnings():
                    warnings.simplefilter("ignore")
                    if obj is None:
                        obj = clone(est)
                    st.reset(obj)
                    obj.fit(X2)
            except Exception as e:
                ctx.count("other_width_fit_raised:" + type(e).__name__)
                continue
            ctx.count("other_width_refits")
            ok2 = True
            if name == "KernelRIM":
                from sklearn.metrics import pairwise_kernels
                bk, bp = params.get("base_kernel", "linear"), params.get("base_kernel_params") or {}
                for (Xq, out) in st.krim[:2]:
                    ok2 = ok2 and same(out, pairwise_kernels(Xq, X2, metric=bk, **bp))
            elif not isinstance(st.train_aff, str):
                ok2 = same(st.train_aff, want2)
            if not ok2:
                ctx.violation("other-width-affinity", f"affinity-after-refit-on-other-width-not-as-described/{name}",
                              observed={"who": who, "params": params, "d_first": d, "d_second": d2}, expected="the described affinity for the new data")
                break
    st.reset(None)
    ctx.distinct(name, str(params))
    ctx.sample({"estimator": name, "params": params, "objective": [dist, None if dist is None else ovo], "path": use_path})
