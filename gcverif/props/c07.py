"""C07 - the regularisation path honours its stopping, history and best-weights contract.

Event log (every validation score with a snapshot of all weights, the model's alpha and the number of optimiser updates
since the previous validation event) + offline checker replaying the documented rule over the log.
Termination is decided on logical steps (budget of validation events / outer steps), never on wall-clock time.
NaN faults are injected at the validation-score hook.
"""
import math
import warnings

import numpy as np

from .. import gen
from ..attach import Patcher
from . import _train

ID = "C07"
RULE = ("path() of the five sparse estimators x GEMINIs x alpha (incl. 0 and tiny) x multipliers 1.05..3 and illegal ones x "
        "min_features -1..d+1 x keep_threshold in and out of [0,1] x early-stopping factors x patience 1..10 x batch sizes x "
        "computed / precomputed affinities x dynamic x restore_best_weights; 20% of runs with a NaN injected at a random "
        "epoch-control validation event; 15% are differential pairs (illegal argument vs documented default). The log is "
        "segmented into outer steps and the documented rule replayed (alpha recurrence, histories, stopping, patience, "
        "best weights bit for bit, restoration). One evaluation = one path() call. Non-trivial = >=1 outer step recorded; "
        "distinct by (estimator, arguments, returned histories).")
ASSUMPTIONS = ["'always terminates' is checked as bounded progress: 1500 outer steps / 15000 validation events; a stuck alpha "
               "schedule at exhaustion is a violation, anything else inconclusive",
               "the best-weights rule is replayed as: best = score(initial fit); per step: if score >= best and all features "
               "selected: best = score; then if score >= keep_threshold*best: best weights = that step's weights"]
EVAL_COUNTER = "paths"
REQUIRED = {"quick": {"paths_with_non_monotone_feature_count": 4, "paths_with_alpha_below_1e-8": 10, "paths": 250, "paths_with_steps": 150, "steps_replayed": 1500, "best_weights_compared": 200,
                      "restorations_checked": 80, "nan_faults_injected": 20, "differential_pairs": 15,
                      "warnings_expected_and_seen": 30, "early_stops_replayed": 100},
            "thorough": {"paths": 4000, "steps_replayed": 30000, "nan_faults_injected": 400}}
SHARD_TIMEOUT = {"quick": 1500, "thorough": 7000}
MAX_VAL_EVENTS = 15000
MAX_STEPS = 1500


def cases(tier, seed):
    n = 400 if tier == "quick" else 5000
    return [{"kind": "path", "seed": seed, "i": i} for i in range(n)]


class Budget(Exception):
    pass


class State(_train.Listener):
    def __init__(self, ctx):
        import gemclus.sparse._base_sparse as bs
        self.ctx = ctx
        self.tap = _train.TrainTap(ctx, self)
        self.patcher = Patcher()
        self.orig_val = bs.compute_val_score
        self.patcher.rebind(bs.compute_val_score, self._wrap_val(bs.compute_val_score))
        self.reset(None)

    def reset(self, model):
        self.model = model
        self.events = []
        self.updates = 0
        self.nan_at = None
        self.e_events = 0
        self.fit_alphas = set()
        self.in_fit = False
        self.steps_started = 0
        self.v0_ref = None

    def close(self):
        self.patcher.restore()
        self.tap.close()

    def fit_enter(self, model, X, y, kind):
        if model is self.model and kind == "fit":
            self.in_fit = True

    def fit_exit(self, model, X, y, kind, exc):
        if model is self.model and kind == "fit":
            self.in_fit = False
            if exc is None and self.v0_ref is None and not self.events and float(model.alpha) == 0.0:
                # the initial unpenalised fit of this path has just ended: its validation score, computed here by the
                # monitor with the library's own (unwrapped) scoring function, whatever way the path obtains its own
                try:
                    before = [w.copy() for w in model._get_weights()]
                    Xv = np.asarray(X)
                    bs_ = model.batch_size if model.batch_size is not None else len(Xv)
                    score, l1 = self.orig_val(model, Xv, y, bs_, model.get_gemini())
                    Wsel = model.W_skip_ if hasattr(model, "W_skip_") else model.W_
                    if all(np.array_equal(a, b, equal_nan=True) for a, b in zip(before, model._get_weights())):
                        self.v0_ref = {"score": score, "l1": l1, "snap": before, "alpha": 0.0, "upd": 0,
                                       "nsel": int(sum(bool(np.any(r != 0)) for r in Wsel)),
                                       "pen": float(np.linalg.norm(Wsel, axis=1, ord=2).sum())}
                except Exception:
                    self.v0_ref = None
                self.updates = 0

    def step_before(self, model, opt, params, grads):
        if model is self.model:
            self.updates += 1
            if self.in_fit:
                self.fit_alphas.add(float(model.alpha))

    def _wrap_val(self, orig):
        st = self

        def compute_val_score(clf, X, y, batch_size, gemini_objective):
            score, l1 = orig(clf, X, y, batch_size, gemini_objective)
            if clf is st.model:
                upd = st.updates
                st.updates = 0
                if upd == 0:
                    st.steps_started += 1
                else:
                    st.e_events += 1
                    if st.nan_at is not None and st.e_events == st.nan_at:
                        score = float("nan")      # injected fault
                        st.ctx.count("nan_faults_injected")
                Wsel = clf.W_skip_ if hasattr(clf, "W_skip_") else clf.W_
                st.events.append({"score": score, "l1": l1, "snap": [w.copy() for w in clf._get_weights()],
                                  "alpha": float(clf.alpha), "upd": upd,
                                  "nsel": int(sum(bool(np.any(r != 0)) for r in Wsel)),
                                  "pen": float(np.linalg.norm(Wsel, axis=1, ord=2).sum())})
                if len(st.events) > MAX_VAL_EVENTS or st.steps_started > MAX_STEPS + 1:
                    raise Budget()
            return score, l1
        compute_val_score.__wrapped__ = orig
        return compute_val_score


def setup(ctx):
    return State(ctx)


def reach_targets(reach):
    import gemclus.sparse._base_sparse as bs
    reach.add_function(bs._path)
    reach.add_function(bs.compute_val_score)
    for n in ("SparseLinearModel", "SparseMLPModel"):
        reach.add_class(gen.get_class(n), {"path"})


def _same(a, b):
    return len(a) == len(b) and all(np.array_equal(x, y, equal_nan=True) for x, y in zip(a, b))


def run_path(st, est, X, y, args):
    """returns (ret, exc, warns)"""
    st.reset(est)
    nan_at = args.pop("_nan_at", None)
    st.nan_at = nan_at
    with warnings.catch_warnings(record=True) as wl:
        warnings.simplefilter("always")
        try:
            ret = est.path(X, y, **args)
            exc = None
        except Budget as e:
            ret, exc = None, e
        except Exception as e:
            ret, exc = None, e
    warns = [str(w.message) for w in wl if issubclass(w.category, UserWarning)]
    return ret, exc, warns


def check_log(ctx, st, est, X, y, params, args, ret, exc, warns, alpha0, nan_at, name):
    d = X.shape[1]
    ev = st.events
    dyn = bool(params.get("dynamic", False)) and y is None
    mech_suffix = ""
    # ---- effective arguments (documented defaults replace out-of-range values, with a warning) ---------------
    mult = args.get("alpha_multiplier", 1.05)
    keep = args.get("keep_threshold", 0.9)
    minf = args.get("min_features", 2)
    max_pat = args.get("max_patience", 10)
    esf = args.get("early_stopping_factor", 0.99)
    expected_warn = 0
    if mult <= 1:
        mult, expected_warn = 1.05, expected_warn + 1
    if keep < 0 or keep > 1:
        keep, expected_warn = 0.9, expected_warn + 1
    if minf <= 0:
        minf, expected_warn = 2, expected_warn + 1
    a0 = alpha0
    if a0 == 0:
        a0, expected_warn = 1e-2, expected_warn + 1
    if expected_warn:
        if len(warns) >= expected_warn:
            ctx.count("warnings_expected_and_seen")
        else:
            ctx.violation("argument-defaults", "no-warning-for-out-of-range-argument",
                          observed={"warnings": warns, "args": args, "alpha": alpha0}, expected=f">= {expected_warn} UserWarning")
    # ---- termination -------------------------------------------------------------------------------------
    if isinstance(exc, Budget):
        alphas_seen = [e["alpha"] for e in ev if e["upd"] == 0][1:]
        stuck = len(alphas_seen) >= 3 and alphas_seen[-1] == alphas_seen[-2] == alphas_seen[-3]
        if stuck:
            ctx.violation("termination", "path-does-not-terminate/alpha-schedule-stuck",
                          observed={"alpha_at_call": alpha0, "alphas_of_last_steps": alphas_seen[-3:], "outer_steps": st.steps_started,
                                    "args": args}, expected="alpha grows by alpha_multiplier at each step")
        else:
            ctx.count("budget_exhausted_inconclusive")
            ctx.errors.append({"where": "budget", "case": ctx.case, "tb": "step budget exhausted without a stuck schedule"})
        return
    if exc is not None:
        nsel_now = ev[-1]["nsel"] if ev else None
        import traceback
        frames = [fr.name for fr in traceback.extract_tb(exc.__traceback__) if "/gemclus/" in fr.filename or "/sklearn/" in fr.filename]
        frames_all = [fr.name for fr in traceback.extract_tb(exc.__traceback__)]
        try:
            none_left = len(est.get_selection()) == 0
        except Exception:
            none_left = False
        if dyn and none_left and isinstance(exc, ValueError) and "0 feature" in str(exc) and "compute_affinity" in frames_all:
            mech = "path-raises/dynamic-empty-selection"
        else:
            mech = f"path-raises/{type(exc).__name__}"
        ctx.violation("path-returns", mech, observed={"exc": repr(exc)[:300], "frames": frames[-4:], "args": args, "params": params},
                      expected="path returns")
        return
    best_w, geminis, pens, alphas, nfeat = ret
    T = len(alphas)
    if not (len(geminis) == len(pens) == len(nfeat) == T):
        ctx.violation("histories", "histories-length-differ", observed=[len(geminis), len(pens), len(alphas), len(nfeat)], expected="equal")
        return
    # ---- the log: what the scoring hook saw, cut into the initial score and the outer steps ---------------------
    # (the hook sits on compute_val_score, the function the property names; when and how often the path calls it is the
    # path's own business: steps are told apart by the model's alpha at each event, a start-of-step score is used when
    # there is one, and the initial score is the one the monitor computed itself at the end of the initial fit)
    V0 = st.v0_ref
    idx = 0
    if ev and ev[0]["alpha"] == 0.0:
        ctx.count("initial_score_events")
        if V0 is not None and not (ev[0]["score"] == V0["score"] or (ev[0]["score"] != ev[0]["score"] and V0["score"] != V0["score"])) \
                and _same(ev[0]["snap"], V0["snap"]):
            ctx.violation("initial-fit", "initial-score-not-the-validation-score-of-the-initial-fit",
                          observed={"seen_by_hook": ev[0]["score"], "recomputed": V0["score"]}, expected="equal")
            return
        V0 = ev[0]
        idx = 1
    elif V0 is not None:
        ctx.count("initial_score_event_absent")
    if V0 is None:
        ctx.count("path_log_unusable")
        return
    # ---- initial fit ------------------------------------------------------------------------------------
    if st.fit_alphas - {0.0}:
        ctx.violation("initial-fit", "initial-fit-not-unpenalised", observed=sorted(st.fit_alphas), expected=[0.0])
    # ---- segmentation -----------------------------------------------------------------------------------
    steps, regular = [], True
    while idx < len(ev):
        a_step = ev[idx]["alpha"]
        S = None
        while idx < len(ev) and ev[idx]["alpha"] == a_step and ev[idx]["upd"] == 0:
            S = ev[idx]
            idx += 1
        E = []
        while idx < len(ev) and ev[idx]["alpha"] == a_step:
            if ev[idx]["upd"] == 0:
                regular = False          # a score taken twice in a row inside a step: not today's shape
            E.append(ev[idx])
            idx += 1
        if S is None:
            regular = False              # no start-of-step score: the early-stopping baseline cannot be replayed
        steps.append((S, E))
    if not regular:
        ctx.count("paths_with_unexpected_log_shape")
    aborted = bool(steps and steps[-1][1] and math.isnan(steps[-1][1][-1]["score"]))
    if aborted:
        ctx.count("aborted_on_nan")
        if not any("nan" in w.lower() for w in warns):
            ctx.violation("nan-abort", "nan-abort-without-warning", observed=warns, expected="a warning")
    nsteps = len(steps) - (1 if aborted else 0)
    if T > nsteps:
        # the histories speak of more steps than the hook saw: this path does not score its steps through
        # compute_val_score (any more) - e.g. it caches validation batches and measures each state once.  The log cannot
        # be replayed; what the public outputs alone decide is checked and the rest is left undecided (the required
        # counters of the replay then make the run INCONCLUSIVE, never a violation)
        ctx.count("path_log_unusable")
        a = a0
        for k in range(T):
            if alphas[k] != a:
                ctx.violation("alphas", "alpha-history-not-geometric", observed={"k": k, "alphas": alphas[:k + 2], "alpha_at_call": alpha0,
                                                                              "multiplier": mult}, expected=a)
                return
            a = a * mult
        if T and not any(g != g for g in geminis) and nfeat[-1] > minf:
            ctx.violation("stopping", "last-feature-count-above-min-features", observed={"n_features": nfeat, "min_features": minf}, expected="<= min")
        now = est._get_weights()
        if args.get("restore_best_weights", True) and not params.get("dynamic", False) and not _same(now, best_w):
            ctx.violation("restoration", "estimator-not-restored-to-best-weights", observed="differs", expected="all equal")
        if not args.get("restore_best_weights", True) and T:
            Wsel = est.W_skip_ if hasattr(est, "W_skip_") else est.W_
            nsel = int(sum(bool(np.any(r != 0)) for r in Wsel))
            if nsel != nfeat[-1]:
                ctx.violation("histories", "history-entry-not-model-at-that-step", observed={"k": T - 1, "n_features": nfeat[-1]},
                              expected={"n_features": nsel})
        return
    if T < nsteps:
        ctx.violation("histories", "history-length-differs-from-steps-run", observed={"T": T, "steps": len(steps), "aborted": aborted},
                      expected="one entry per completed step")
        return
    if T:
        ctx.count("paths_with_steps")
        if any(nfeat[k + 1] > nfeat[k] for k in range(T - 1)):
            ctx.count("paths_with_non_monotone_feature_count")
    # ---- alpha recurrence -------------------------------------------------------------------------------
    a = a0
    for k in range(T):
        if alphas[k] != a:
            ctx.violation("alphas", "alpha-history-not-geometric", observed={"k": k, "alphas": alphas[:k + 2], "alpha_at_call": alpha0,
                                                                          "multiplier": mult}, expected=a)
            return
        S, E = steps[k]
        if (S is not None and S["alpha"] != a) or any(e["alpha"] != a for e in E):
            ctx.violation("alphas", "model-alpha-differs-from-history-during-step",
                          observed={"k": k, "model_alpha": (S or E[0])["alpha"], "history": a}, expected="equal")
            return
        a = a * mult
    # ---- per-step records -------------------------------------------------------------------------------
    max_iter = params["max_iter"]
    for k in range(len(steps)):
        S, E = steps[k]
        if not E:
            ctx.violation("epochs", "step-without-epoch", observed={"k": k}, expected=">= 1 epoch")
            return
        ctx.count("steps_replayed")
        if k < T:
            last = E[-1]
            if nfeat[k] != last["nsel"] or not (pens[k] == last["pen"] or abs(pens[k] - last["pen"]) <= 1e-12 * max(1.0, abs(last["pen"]))) \
                    or not (geminis[k] == last["score"]):
                ctx.violation("histories", "history-entry-not-model-at-that-step",
                              observed={"k": k, "n_features": nfeat[k], "penalty": pens[k], "gemini": geminis[k]},
                              expected={"n_features": last["nsel"], "penalty": last["pen"], "gemini": last["score"]})
                return
        # early stopping replay
        if not regular:
            continue
        vs, vl, patience = S["score"], S["l1"], 0
        for i, e in enumerate(E):
            if i >= max_iter or patience >= max_pat:
                ctx.violation("epochs", "step-ran-past-its-stopping-rule", observed={"k": k, "epochs": len(E), "max_iter": max_iter,
                                                                                 "patience_reached_at": i}, expected="stop")
                return
            if e["score"] > (2 - esf) * vs or e["l1"] < esf * vl:
                vs, vl, patience = e["score"], e["l1"], 0
            else:
                patience += 1
            if math.isnan(e["score"]):
                patience = max_pat
        if not (len(E) == max_iter or patience >= max_pat):
            ctx.violation("epochs", "step-stopped-before-its-stopping-rule",
                          observed={"k": k, "epochs": len(E), "max_iter": max_iter, "patience": patience, "max_patience": max_pat},
                          expected="max_iter epochs or patience exhausted")
            return
        if len(E) < max_iter:
            ctx.count("early_stops_replayed")
    # ---- stopping of the outer loop ---------------------------------------------------------------------
    counts = [V0["nsel"]] + [steps[k][1][-1]["nsel"] for k in range(len(steps))]
    for k in range(len(steps)):
        if counts[k] <= minf:
            ctx.violation("stopping", "path-continued-below-min-features", observed={"k": k, "selected_before_step": counts[k], "min_features": minf},
                          expected="stop")
            return
    if not aborted and counts[-1] > minf:
        ctx.violation("stopping", "path-stopped-above-min-features", observed={"selected": counts[-1], "min_features": minf, "T": T},
                      expected="continue")
        return
    if T and not aborted and nfeat[-1] > minf:
        ctx.violation("stopping", "last-feature-count-above-min-features", observed={"n_features": nfeat, "min_features": minf}, expected="<= min")
    # ---- best weights -----------------------------------------------------------------------------------
    best = V0["score"]
    bw = V0["snap"]
    for k in range(T):
        last = steps[k][1][-1]
        if last["score"] >= best and last["nsel"] == d:
            best = last["score"]
        if last["score"] >= keep * best:
            bw = last["snap"]
    ctx.count("best_weights_compared")
    if not _same(best_w, bw):
        which = None
        for k in range(T):
            if _same(best_w, steps[k][1][-1]["snap"]):
                which = k
        ctx.violation("best-weights", "best-weights-not-per-documented-rule",
                      observed={"returned_equals_step": which if which is not None else ("initial" if _same(best_w, V0["snap"]) else "none"),
                                "geminis": geminis, "initial_score": V0["score"], "keep_threshold": keep, "n_features": nfeat},
                      expected="weights of the last step with score >= keep_threshold * best")
        return
    # ---- restoration ------------------------------------------------------------------------------------
    now = est._get_weights()
    if args.get("restore_best_weights", True) and not params.get("dynamic", False):
        ctx.count("restorations_checked")
        if not _same(now, best_w):
            diff = [j for j, (x, z) in enumerate(zip(now, best_w)) if not np.array_equal(x, z, equal_nan=True)]
            ctx.violation("restoration", "estimator-not-restored-to-best-weights", observed={"arrays_differing": diff}, expected="all equal")
    elif not args.get("restore_best_weights", True):
        if ev and not _same(now, ev[-1]["snap"]):
            ctx.violation("restoration", "weights-changed-although-restore-off", observed="differs from last step", expected="last step's weights")
    if T:
        ctx.distinct(name, str(sorted(args.items())), tuple(alphas[:5]), tuple(nfeat), tuple(round(g, 12) if g == g else "nan" for g in geminis[:8]))
        ctx.sample({"estimator": name, "args": args, "alpha": alpha0, "T": T, "n_features": nfeat[:12], "alphas": alphas[:4],
                    "nan_fault": nan_at, "aborted": aborted})


def make_case(seed, i):
    rng = gen.rng_for(seed, ID, "path", i)
    name = gen.SPARSE[i % len(gen.SPARSE)]
    n, d = int(rng.integers(12, 45)), int(rng.integers(3, 9))
    X = gen.make_data(rng, n, d, "blobs")
    params, pre = gen.random_config(rng, name, n, d, max_iter=int(rng.integers(2, 9)), allow_precomputed=True)
    params["alpha"] = float([0.0, 1e-6, 1e-3, 0.02, 0.1, 1.0][int(rng.integers(0, 6))])
    params["learning_rate"] = float(10 ** rng.uniform(-2.5, -0.8))
    y = gen.precomputed_for(rng, pre, n)
    args = {}
    r = rng.random()
    args["alpha_multiplier"] = float([1.05, 1.3, 2.0, 3.0][int(rng.integers(0, 4))]) if r < 0.8 else float([1.0, 0.5, -2.0][int(rng.integers(0, 3))])
    if params["alpha"] <= 1e-3 and args["alpha_multiplier"] < 1.3:
        args["alpha_multiplier"] = float([2.0, 3.0, 1.0, 0.5][int(rng.integers(0, 4))])   # keep runs short (1.0/0.5 -> default 1.05 is long)
        if args["alpha_multiplier"] <= 1:
            params["alpha"] = 0.05
    if rng.random() < 0.12:
        # a strictly positive alpha far below every absolute tolerance (1e-8, 1e-12): it is the model's alpha and the path
        # starts there - with a large multiplier, so that the run stays short
        params["alpha"] = float([1e-9, 1e-10, 1e-12, 1e-15][int(rng.integers(0, 4))])
        args["alpha_multiplier"] = float([4.0, 10.0, 30.0][int(rng.integers(0, 3))])
    args["min_features"] = int(rng.integers(-1, d + 2))
    rk = rng.random()
    args["keep_threshold"] = float(rng.uniform(0, 1)) if rk < 0.75 else float([-0.5, 1.5, 0.0, 1.0][int(rng.integers(0, 4))])
    if rng.random() < 0.3:
        # an under-trained initial fit followed by a strong penalty: the score keeps rising while the first features are
        # already being dropped - the steps in which "best score with all features" and "score reached" come apart
        params["alpha"] = float([1.0, 5.0, 20.0, 50.0][int(rng.integers(0, 4))])
        params["max_iter"] = int(rng.integers(8, 25))
        params["learning_rate"] = float(10 ** rng.uniform(-3, -2))
        params["batch_size"] = None
        args["alpha_multiplier"] = float([1.5, 2.0][int(rng.integers(0, 2))])
        args["keep_threshold"] = float(rng.uniform(0.9, 1.0))
        args["min_features"] = int(rng.integers(1, 3))
        if pre is None:
            # two informative coordinates (tight blobs) and noise columns: the noise goes first, while the score still rises
            n = int(rng.integers(40, 90))
            centres = rng.normal(scale=3.0, size=(3, 2))
            X = np.hstack([centres[rng.integers(0, 3, size=n)] + rng.normal(scale=0.1, size=(n, 2)),
                           rng.normal(size=(n, int(rng.integers(2, 6))))])
            if "groups" in params:
                params["groups"] = None
            y = None
    if pre is None and rng.random() < 0.15:
        # redundant features and mini-batches: a discarded twin comes back at a later step, the feature count of the path
        # is no longer monotone and "the last step that reached the threshold" need not be the one with the fewest features
        X = gen.with_twins(rng, X)
        params["batch_size"] = int(max(2, len(X) // int(rng.integers(3, 10))))
        if "groups" in params:
            params["groups"] = None
        params["alpha"] = float([0.02, 0.1, 0.5][int(rng.integers(0, 3))])
        args["alpha_multiplier"] = float(rng.uniform(1.1, 1.5))
        args["keep_threshold"] = float(rng.uniform(0.3, 0.95))
        args["min_features"] = 1
    args["early_stopping_factor"] = float([0.99, 0.9, 0.5, 1.0][int(rng.integers(0, 4))])
    args["max_patience"] = int(rng.integers(1, 11))
    args["restore_best_weights"] = bool(rng.random() < 0.7)
    return rng, name, X, y, params, args


def run_case(case, ctx, st):
    i = case["i"]
    rng, name, X, y, params, args = make_case(case["seed"], i)
    est = gen.build_estimator(name, params)
    nan_at = None
    if i % 5 == 1:
        nan_at = int(rng.integers(1, 12))
    ctx.case = dict(case, estimator=name, params=params, args=args, n=len(X), d=X.shape[1], nan_at=nan_at, pre=y is not None)
    ctx.count("paths")
    if 0 < params["alpha"] <= 1e-8:
        ctx.count("paths_with_alpha_below_1e-8")
    a = dict(args)
    if nan_at:
        a["_nan_at"] = nan_at
    ret, exc, warns = run_path(st, est, X, y, a)
    events, fit_alphas, steps_started = st.events, st.fit_alphas, st.steps_started
    check_log(ctx, st, est, X, y, params, args, ret, exc, warns, params["alpha"], nan_at, name)
    # differential: illegal argument == documented default
    illegal = {k: v for k, v in (("alpha_multiplier", 1.05 if args["alpha_multiplier"] <= 1 else None),
                                 ("keep_threshold", 0.9 if not (0 <= args["keep_threshold"] <= 1) else None),
                                 ("min_features", 2 if args["min_features"] <= 0 else None)) if v is not None}
    if illegal and ret is not None and nan_at is None and i % 2 == 0:
        args2 = dict(args, **illegal)
        est2 = gen.build_estimator(name, params)
        ret2, exc2, warns2 = run_path(st, est2, X, y, dict(args2))
        if ret2 is not None:
            ctx.count("differential_pairs")
            same = _same(ret[0], ret2[0]) and all(list(map(repr, ret[j])) == list(map(repr, ret2[j])) for j in range(1, 5))
            if not same:
                ctx.violation("argument-defaults", "illegal-argument-not-equivalent-to-default",
                              observed={"args": args, "defaults": illegal, "n_features": ret[4], "n_features_default": ret2[4]},
                              expected="bit-identical results")
    st.reset(None)
