"""Runtime-monitoring harness for GemClus (see /verif/DESIGN.md)."""
