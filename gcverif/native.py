"""Rebuild gemclus/tree/_utils.cpp from /repo's working tree (plain and ASan+UBSan) and load it in place of the
installed extension.  Cython is not available in this sandbox, so the .pyx cannot be translated; the generated C++
echoes every .pyx line it translates, which lets us detect a .pyx that was edited without regenerating."""
import hashlib
import importlib.machinery
import importlib.util
import json
import os
import re
import subprocess
import sys
import sysconfig

HOME = os.environ.get("GCVERIF_HOME", os.path.dirname(os.path.dirname(os.path.abspath(__file__))))
REPO = os.environ.get("GCVERIF_REPO", "/repo")
BUILD = os.path.join(HOME, ".build")
CPP = os.path.join(REPO, "gemclus", "tree", "_utils.cpp")
PYX = os.path.join(REPO, "gemclus", "tree", "_utils.pyx")
ASAN_RT = "/usr/lib/llvm-14/lib/clang/14.0.6/lib/linux/libclang_rt.asan-x86_64.so"
EXT = sysconfig.get_config_var("EXT_SUFFIX") or ".so"


def _includes():
    import numpy
    return ["-I" + sysconfig.get_paths()["include"], "-I" + numpy.get_include(),
            "-I" + os.path.join(REPO, "gemclus", "tree")]


def _sha(path, extra=""):
    h = hashlib.sha256()
    h.update(open(path, "rb").read())
    h.update(extra.encode())
    return h.hexdigest()[:20]


def try_cython():
    """If Cython ever becomes importable, regenerate the .cpp from the .pyx into the build dir."""
    try:
        import Cython  # noqa: F401
    except Exception:
        return None
    out = os.path.join(BUILD, "cy-" + _sha(PYX) + ".cpp")
    if not os.path.exists(out):
        os.makedirs(BUILD, exist_ok=True)
        r = subprocess.run([sys.executable, "-m", "cython", "--cplus", "-3", PYX, "-o", out],
                           capture_output=True, text=True)
        if r.returncode != 0:
            return None
    return out


def staleness():
    """Return None when every .pyx line echoed in the .cpp equals the current .pyx line, else a description."""
    if not (os.path.exists(CPP) and os.path.exists(PYX)):
        return "missing _utils.cpp or _utils.pyx"
    pyx = open(PYX, encoding="utf-8").read().split("\n")
    txt = open(CPP, encoding="utf-8", errors="replace").read()
    bad = []
    checked = 0
    for m in re.finditer(r'/\* "gemclus/tree/_utils\.pyx":(\d+)\n(.*?)\*/', txt, re.S):
        ln = int(m.group(1))
        marked = [l for l in m.group(2).split("\n") if l.rstrip().endswith("# <<<<<<<<<<<<<<")]
        if not marked:
            continue
        src = marked[0]
        src = src[3:] if src.startswith(" * ") else src.lstrip(" *")
        src = src.rstrip()[: -len("# <<<<<<<<<<<<<<")].rstrip()
        cur = pyx[ln - 1].rstrip() if ln - 1 < len(pyx) else "<eof>"
        checked += 1
        if " ".join(src.split()) != " ".join(cur.split()):
            bad.append(f"line {ln}: cpp echoes {src.strip()!r} but pyx has {cur.strip()!r}")
    # lines of the pyx that carry code but are never echoed cannot be compared; report how many were compared
    if bad:
        return "; ".join(bad[:3]) + f" ({len(bad)} of {checked} echoed lines differ)"
    if checked < 100:
        return f"only {checked} echoed lines found in _utils.cpp"
    return None


def build(sanitize=False):
    src = try_cython() or CPP
    if not os.path.exists(src):
        return None, "no _utils.cpp in the working tree"
    flags = (["clang++", "-O1", "-g", "-fno-omit-frame-pointer", "-fsanitize=address,undefined",
              "-fno-sanitize=function,vptr", "-fno-sanitize-recover=undefined"] if sanitize
             else ["g++", "-O2"])
    flags += ["-shared", "-fPIC", "-std=c++17", "-w", "-DNPY_NO_DEPRECATED_API=NPY_1_7_API_VERSION"]
    key = _sha(src, " ".join(flags))
    d = os.path.join(BUILD, ("san-" if sanitize else "plain-") + key)
    so = os.path.join(d, "_utils" + EXT)
    if os.path.exists(so):
        return so, None
    os.makedirs(d, exist_ok=True)
    tmp = so + f".tmp{os.getpid()}"
    r = subprocess.run(flags + _includes() + [src, "-o", tmp], capture_output=True, text=True)
    if r.returncode != 0:
        return None, (r.stderr or r.stdout)[-1500:]
    os.replace(tmp, so)
    return so, None


def prepare(sanitize=False):
    """Called by the parent: build what is needed, write .build/current.json for the shards."""
    meta = {"cpp_sha": _sha(CPP) if os.path.exists(CPP) else None, "stale": staleness(),
            "cython_available": try_cython() is not None}
    so, err = build(False)
    meta["plain_so"] = so
    if err:
        meta["error"] = err
    if sanitize:
        sso, serr = build(True)
        meta["san_so"] = sso
        if serr:
            meta["san_error"] = serr
        if sso:
            meta["san_env"] = {"LD_PRELOAD": ASAN_RT,
                               "ASAN_OPTIONS": "detect_leaks=0:halt_on_error=1:abort_on_error=0:"
                                               "allocator_may_return_null=1",
                               "UBSAN_OPTIONS": "print_stacktrace=1:halt_on_error=1"}
    os.makedirs(BUILD, exist_ok=True)
    json.dump(meta, open(os.path.join(BUILD, f"current-{os.getpid()}.json"), "w"))
    json.dump(meta, open(os.path.join(BUILD, "current.json"), "w"))
    return meta


def install(variant="plain"):
    """Called in a shard before gemclus is imported: load the rebuilt module as gemclus.tree._utils."""
    assert "gemclus" not in sys.modules, "native.install must run before gemclus is imported"
    so, err = build(variant == "san")
    if so is None:
        raise RuntimeError("native build failed: " + str(err))
    name = "gemclus.tree._utils"
    loader = importlib.machinery.ExtensionFileLoader(name, so)
    spec = importlib.util.spec_from_file_location(name, so, loader=loader)
    mod = importlib.util.module_from_spec(spec)
    sys.modules[name] = mod
    loader.exec_module(mod)
    import gemclus.tree.kauri as kk
    assert kk.find_best_split is mod.find_best_split
    import gemclus.tree as gt
    gt._utils = mod
    return {"variant": variant, "so": so}
